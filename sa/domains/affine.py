"""A - polynomial/affine normal forms with rounding atoms (DESIGN 4.3).

Scalars and per-axis vectors are evaluated to rational functions num/den whose numerator
and denominator are polynomials over *atoms* with Fraction coefficients.  Atoms are
symbols (parameters, attributes, per-axis generic elements ``name[i]``) and opaque
applications int/floor/ceil/round/floordiv/min/max keyed by the normal form of their
argument, so algebraically equal spellings collapse.  A vector is represented by its
generic per-axis element (the repo's per-axis loops evaluate once over symbolic axes).
Includes a tiny symbolic 4x4 matrix value for affine-matrix displays, slices, and a
Farkas-style one-directional inequality prover over path conditions.
"""
from __future__ import annotations

import ast
import itertools
from dataclasses import dataclass
from fractions import Fraction

from ..absint import TOP, Const, DictV, Domain, ExtRef, FuncRef, ListOf, Obj, Tup
from ..repo import FuncInfo, norm_src

# ----------------------------------------------------------------------------- polynomials
# monomial: tuple of (atom, power) sorted by repr(atom); polynomial: dict monomial -> Fraction


def _key(atom):
    return repr(atom)


class Poly:
    __slots__ = ("t",)

    def __init__(self, terms=None):
        self.t = {m: c for m, c in (terms or {}).items() if c != 0}

    @staticmethod
    def const(c):
        return Poly({(): Fraction(c)})

    @staticmethod
    def atom(a):
        return Poly({((a, 1),): Fraction(1)})

    def is_const(self):
        return all(m == () for m in self.t)

    def const_value(self):
        return self.t.get((), Fraction(0))

    def __add__(self, o):
        d = dict(self.t)
        for m, c in o.t.items():
            d[m] = d.get(m, 0) + c
        return Poly(d)

    def __neg__(self):
        return Poly({m: -c for m, c in self.t.items()})

    def __sub__(self, o):
        return self + (-o)

    def __mul__(self, o):
        d = {}
        for m1, c1 in self.t.items():
            for m2, c2 in o.t.items():
                mm = {}
                for a, p in m1 + m2:
                    mm[a] = mm.get(a, 0) + p
                m = tuple(sorted(((a, p) for a, p in mm.items() if p), key=lambda x: _key(x[0])))
                d[m] = d.get(m, 0) + c1 * c2
        return Poly(d)

    def scale(self, c):
        return Poly({m: v * c for m, v in self.t.items()})

    def __eq__(self, o):
        return isinstance(o, Poly) and self.t == o.t

    def __hash__(self):
        return hash(frozenset(self.t.items()))

    def atoms(self):
        out = set()
        for m in self.t:
            for a, _ in m:
                out.add(a)
        return out

    def is_linear(self):
        return all(len(m) <= 1 and all(p == 1 for _, p in m) for m in self.t)

    def key(self):
        return tuple(sorted(((tuple((_key(a), p) for a, p in m)), str(c)) for m, c in self.t.items()))

    def subs(self, mapping: dict):
        """Substitute atoms by polynomials."""
        out = Poly()
        for m, c in self.t.items():
            term = Poly.const(c)
            for a, p in m:
                rep = mapping.get(a)
                base = rep if rep is not None else Poly.atom(a)
                for _ in range(p):
                    term = term * base
            out = out + term
        return out

    def __repr__(self):
        if not self.t:
            return "0"
        parts = []
        for m, c in sorted(self.t.items(), key=lambda x: (len(x[0]), repr(x[0]))):
            mon = "*".join((fmt_atom(a) + (f"^{p}" if p != 1 else "")) for a, p in m)
            if not mon:
                parts.append(str(c))
            elif c == 1:
                parts.append(mon)
            elif c == -1:
                parts.append("-" + mon)
            else:
                parts.append(f"{c}*{mon}")
        return " + ".join(parts).replace("+ -", "- ")


def fmt_atom(a):
    if isinstance(a, tuple):
        if a[0] == "sym":
            return a[1]
        if a[0] in ("int", "floor", "ceil", "round", "abs", "sqrt"):
            return f"{a[0]}({a[2]})"
        if a[0] == "floordiv":
            return f"({a[3]})//{a[4]}"
        if a[0] in ("min", "max"):
            return f"{a[0]}({a[3]}, {a[4]})"
        if a[0] == "fn":
            return f"{a[1]}({', '.join(a[3])})"
    return str(a)


ZERO = Poly()
ONE = Poly.const(1)


@dataclass(frozen=True)
class A:
    """Rational form num/den (den a non-zero polynomial)."""

    num: Poly
    den: Poly = ONE
    maybe_none = False

    def __repr__(self):
        if self.den == ONE:
            return f"A[{self.num!r}]"
        return f"A[({self.num!r}) / ({self.den!r})]"

    def is_poly(self):
        return self.den.is_const()

    def poly(self):
        return self.num.scale(1 / self.den.const_value())

    def equals(self, o: "A") -> bool:
        return (self.num * o.den - o.num * self.den).t == {}

    def key(self):
        if self.den.is_const():
            return ("p", self.poly().key())
        return ("r", self.num.key(), self.den.key())


def mkA(p) -> A:
    if isinstance(p, A):
        return p
    if isinstance(p, Poly):
        return A(p)
    return A(Poly.const(p))


@dataclass(frozen=True)
class Sl:
    start: object
    stop: object
    step: object = None

    def __repr__(self):
        return f"Sl[{self.start!r}:{self.stop!r}]"


@dataclass
class Mat:
    rows: list  # list[list[A]]

    def __repr__(self):
        return "Mat[" + "; ".join(", ".join(repr(x) for x in r) for r in self.rows) + "]"


@dataclass(frozen=True)
class RotSym:
    name: str


@dataclass(frozen=True)
class BoolC:
    """A comparison kept symbolically: lhs - rhs  op  0."""

    diff: A
    op: str  # < <= > >= == !=

    def negate(self):
        return BoolC(self.diff, {"<": ">=", "<=": ">", ">": "<=", ">=": "<", "==": "!=", "!=": "=="}[self.op])


@dataclass(frozen=True)
class BoolOr:
    parts: tuple


@dataclass(frozen=True)
class BoolAnd:
    parts: tuple


INT_FUNCS = {"int", "floor", "ceil", "round", "floordiv"}


class AffineDomain(Domain):
    name = "A"
    split_boolops = True

    def __init__(self, model, integer_syms=(), nonneg_syms=(), positive_syms=(), param_seeds=None, vector_params=()):
        self.model = model
        self.integer = set(integer_syms)
        self.nonneg = set(nonneg_syms)
        self.positive = set(positive_syms)
        self.param_seeds = param_seeds or {}
        self.vector_params = set(vector_params)
        self.events = []

    # ------------------------------------------------------------------ atoms
    def sym(self, name: str) -> A:
        return A(Poly.atom(("sym", name)))

    def is_integer_atom(self, a) -> bool:
        if a[0] == "sym":
            base = a[1].split("[")[0]
            return a[1] in self.integer or base in self.integer
        if a[0] in INT_FUNCS:
            return True
        if a[0] in ("min", "max"):
            return a[5]
        return False

    def is_integer(self, v: A) -> bool:
        if not v.is_poly():
            return False
        p = v.poly()
        for m, c in p.t.items():
            if c.denominator != 1:
                return False
            if not all(self.is_integer_atom(a) for a, _ in m):
                return False
        return True

    def opaque(self, kind: str, arg: A) -> A:
        """int/floor/ceil/round of a form, with integer parts pulled out."""
        if self.is_integer(arg):
            return arg
        if arg.is_poly():
            p = arg.poly()
            # split integer-valued part k out:  f(e + k) = f(e) + k  (valid for floor/ceil/round-half-consistent; for
            # `int` only when the sign cannot change - we keep `int` conservative: pull out nothing)
            if kind in ("floor", "ceil"):
                ip, rest = Poly(), Poly()
                for m, c in p.t.items():
                    if c.denominator == 1 and all(self.is_integer_atom(a) for a, _ in m):
                        ip = ip + Poly({m: c})
                    else:
                        rest = rest + Poly({m: c})
                if rest.t == {}:
                    return A(ip)
                if rest.is_const():
                    import math
                    cv = rest.const_value()
                    r = math.floor(cv) if kind == "floor" else math.ceil(cv)
                    return A(ip + Poly.const(r))
                inner = A(rest)
                return A(ip + Poly.atom((kind, inner.key(), repr(inner), inner)))
            if p.is_const():
                import math
                cv = p.const_value()
                r = {"int": int(cv), "floor": math.floor(cv), "ceil": math.ceil(cv), "round": round(cv)}[kind]
                return mkA(r)
        return A(Poly.atom((kind, arg.key(), repr(arg), arg)))

    def floordiv(self, a: A, b: A) -> A:
        if b.is_poly() and b.poly().is_const() and a.is_poly():
            k = b.poly().const_value()
            if k.denominator == 1 and k > 0:
                k = int(k)
                p = a.poly()
                # (e + k*j)//k = e//k + j  for integer-valued j
                ip, rest = Poly(), Poly()
                for m, c in p.t.items():
                    if c.denominator == 1 and c % k == 0 and all(self.is_integer_atom(x) for x, _ in m):
                        ip = ip + Poly({m: c / k})
                    else:
                        rest = rest + Poly({m: c})
                if rest.t == {}:
                    return A(ip)
                if rest.is_const():
                    import math
                    return A(ip + Poly.const(math.floor(rest.const_value() / k)))
                inner = A(rest)
                return A(ip + Poly.atom(("floordiv", inner.key(), k, repr(inner), k, inner)))
        q = self.div(a, b)
        return self.opaque("floor", q)

    # ------------------------------------------------------------------ engine hooks
    def const(self, interp, value, node):
        if isinstance(value, bool) or value is None or isinstance(value, (str, bytes)) or value is Ellipsis:
            return Const(value)
        if isinstance(value, int):
            return mkA(value)
        if isinstance(value, float):
            return A(Poly.const(Fraction(value).limit_denominator(10**9)))
        return Const(value)

    def seed_param(self, interp, fn: FuncInfo, arg: ast.arg):
        key = (fn.anchor, arg.arg)
        if key in self.param_seeds:
            return self.param_seeds[key]
        if arg.arg in self.vector_params:
            return self.sym(arg.arg + "[i]")
        return self.sym(arg.arg)

    def seed_field(self, interp, obj: Obj, name: str, node):
        return self.sym(f"{'self' if obj.tag == 'self' else obj.cls.name}.{name}")

    def attr(self, interp, val, name, node):
        if isinstance(val, A):
            if name == "shape":
                # shape of a symbolic array: per-axis generic element
                base = fmt_atom(next(iter(val.num.atoms()))) if val.num.atoms() else "arr"
                s = f"{base.split('[')[0]}.shape[i]"
                self.integer.add(s)
                self.positive.add(s)
                return self.sym(s)
            if name in ("real", "T"):
                return val
            if name == "ndim":
                return self.sym("ndim")
        if isinstance(val, Sl):
            if name == "start":
                return val.start
            if name == "stop":
                return val.stop
        return NotImplemented

    def binop(self, interp, op, l, r, node):
        if isinstance(l, Mat) or isinstance(r, Mat):
            if isinstance(op, ast.MatMult) and isinstance(l, Mat) and isinstance(r, Mat):
                return self.matmul(l, r)
            return TOP
        a, b = self.lift(l), self.lift(r)
        if a is None or b is None:
            return TOP
        if isinstance(op, ast.Add):
            return self.add(a, b)
        if isinstance(op, ast.Sub):
            return self.add(a, self.neg(b))
        if isinstance(op, ast.Mult):
            return self.norm(A(a.num * b.num, a.den * b.den)) if not (a.den == ONE and b.den == ONE) else A(a.num * b.num)
        if isinstance(op, ast.Div):
            return self.div(a, b)
        if isinstance(op, ast.FloorDiv):
            return self.floordiv(a, b)
        if isinstance(op, ast.Mod):
            q = self.floordiv(a, b)
            return self.add(a, self.neg(A(q.num * b.num, q.den * b.den)))
        if isinstance(op, ast.Pow):
            if b.is_poly() and b.poly().is_const():
                k = b.poly().const_value()
                if k.denominator == 1 and -6 <= k <= 6:
                    out = mkA(1)
                    for _ in range(abs(int(k))):
                        out = A(out.num * a.num, out.den * a.den)
                    out = self.norm(out)
                    return out if k >= 0 else self.div(mkA(1), out)
                if k == Fraction(1, 2):
                    return A(Poly.atom(("sqrt", a.key(), repr(a), a)))
            return A(Poly.atom(("fn", "pow", (a.key(), b.key()), (repr(a), repr(b)))))
        return TOP

    def norm(self, v: A) -> A:
        if v.den.is_const() and v.den != ONE:
            return A(v.num.scale(1 / v.den.const_value()))
        if len(v.den.t) == 1 and not v.den.is_const() and v.num.t:
            # cancel the common monomial factor of a single-term denominator
            (dm, dc), = v.den.t.items()
            dpow = dict(dm)
            common = dict(dpow)
            for m in v.num.t:
                mp = dict(m)
                for a in list(common):
                    common[a] = min(common[a], mp.get(a, 0))
            common = {a: p for a, p in common.items() if p > 0}
            if common:
                def strip(m):
                    mp = dict(m)
                    for a, p in common.items():
                        mp[a] = mp.get(a, 0) - p
                    return tuple(sorted(((a, p) for a, p in mp.items() if p), key=lambda x: _key(x[0])))
                num = Poly({strip(m): c for m, c in v.num.t.items()})
                den = Poly({strip(dm): dc})
                return self.norm(A(num, den))
        return v

    def add(self, a: A, b: A) -> A:
        if a.den == b.den:
            return self.norm(A(a.num + b.num, a.den))
        return self.norm(A(a.num * b.den + b.num * a.den, a.den * b.den))

    def neg(self, a: A) -> A:
        return A(-a.num, a.den)

    def div(self, a: A, b: A) -> A:
        if b.num.t == {}:
            return TOP
        return self.norm(A(a.num * b.den, a.den * b.num))

    def lift(self, v):
        if isinstance(v, A):
            return v
        if isinstance(v, Const) and isinstance(v.value, bool):
            return None
        if isinstance(v, Tup):
            # a display of equal per-axis forms behaves like that form
            if v.items and all(isinstance(x, A) for x in v.items) and all(x.equals(v.items[0]) for x in v.items):
                return v.items[0]
            return None
        if isinstance(v, ListOf) and isinstance(v.elem, A):
            return v.elem
        return None

    def unary(self, interp, op, val, node):
        if isinstance(val, Tup) and val.items and all(isinstance(x, A) for x in val.items) and isinstance(op, (ast.USub, ast.UAdd)):
            return Tup([self.neg(x) if isinstance(op, ast.USub) else x for x in val.items])
        a = self.lift(val)
        if a is None:
            if isinstance(op, ast.Not) and isinstance(val, BoolC):
                return val.negate()
            return TOP
        if isinstance(op, ast.USub):
            return self.neg(a)
        if isinstance(op, ast.UAdd):
            return a
        return TOP

    def compare(self, interp, node, vals):
        if len(node.ops) != 1:
            return TOP
        a, b = self.lift(vals[0]), self.lift(vals[1])
        if a is None or b is None:
            return TOP
        opn = {ast.Lt: "<", ast.LtE: "<=", ast.Gt: ">", ast.GtE: ">=", ast.Eq: "==", ast.NotEq: "!="}.get(type(node.ops[0]))
        if opn is None:
            return TOP
        d = self.add(a, self.neg(b))
        if d.is_poly() and d.poly().is_const():
            c = d.poly().const_value()
            return Const({"<": c < 0, "<=": c <= 0, ">": c > 0, ">=": c >= 0, "==": c == 0, "!=": c != 0}[opn])
        return BoolC(d, opn)

    def boolop(self, interp, node, vals):
        if all(isinstance(v, (BoolC, BoolOr, BoolAnd)) for v in vals):
            return BoolOr(tuple(vals)) if isinstance(node.op, ast.Or) else BoolAnd(tuple(vals))
        return TOP

    def truth(self, interp, val):
        if isinstance(val, Const):
            if isinstance(val.value, str) and val.value.startswith("<"):
                return None
            return bool(val.value)
        return None

    def assume(self, interp, env, test, truth):
        fn = interp.cur_fn
        try:
            v = interp.eval(test, dict(env), fn)
        except Exception:
            return env
        cons = self.constraints_of(v, truth)
        if cons:
            env["$pc"] = tuple(env.get("$pc", ())) + tuple(cons)
            if self.infeasible(env["$pc"]):
                return None
        return env

    def constraints_of(self, v, truth):
        if isinstance(v, BoolC):
            return [v if truth else v.negate()]
        if isinstance(v, BoolAnd) and truth:
            out = []
            for p in v.parts:
                out += self.constraints_of(p, True)
            return out
        if isinstance(v, BoolOr) and not truth:
            out = []
            for p in v.parts:
                out += self.constraints_of(p, False)
            return out
        return []

    def join(self, interp, a, b):
        if isinstance(a, A) and isinstance(b, A):
            return a if a.equals(b) else TOP
        if isinstance(a, Const) and isinstance(b, Const) and a.value == b.value:
            return a
        if isinstance(a, Sl) and isinstance(b, Sl):
            s0 = self.join(interp, a.start, b.start)
            s1 = self.join(interp, a.stop, b.stop)
            return Sl(s0, s1)
        if isinstance(a, Mat) and isinstance(b, Mat) and len(a.rows) == len(b.rows):
            if all(len(x) == len(y) and all(p.equals(q) for p, q in zip(x, y)) for x, y in zip(a.rows, b.rows)):
                return a
            return TOP
        return TOP

    def elem(self, interp, val, node):
        if isinstance(val, A):
            return val
        return TOP

    def unpack(self, interp, val, n, node):
        if isinstance(val, A):
            # unpacking a symbolic vector into its components: name[0], name[1], ...
            ats = val.num.atoms()
            if val.is_poly() and len(ats) == 1 and val.poly() == Poly.atom(next(iter(ats))):
                a = next(iter(ats))
                if a[0] == "sym" and a[1].endswith("[i]"):
                    base = a[1][:-3]
                    out = []
                    for k in range(n):
                        nm = f"{base}[{k}]"
                        if a[1] in self.integer or base in self.integer:
                            self.integer.add(nm)
                        out.append(self.sym(nm))
                    return out
            return [val] * n
        return NotImplemented

    def subscript(self, interp, val, index_node, index_val, node):
        if isinstance(val, A):
            return val
        if isinstance(val, Mat):
            return TOP
        return NotImplemented

    def store_sub(self, interp, container, index_node, index_val, value, node):
        if isinstance(container, Mat):
            txt = norm_src(index_node).replace(" ", "").strip("()")
            if txt in (":3,:3", "0:3,0:3") and isinstance(value, Mat) and len(value.rows) == 3:
                rows = [list(r) for r in container.rows]
                for i in range(3):
                    for j in range(3):
                        rows[i][j] = value.rows[i][j]
                return Mat(rows)
            if txt in (":3,3", "0:3,3"):
                comps = None
                if isinstance(value, Tup) and len(value.items) == 3 and all(isinstance(x, A) for x in value.items):
                    comps = value.items
                elif isinstance(value, A):
                    comps = self.unpack(interp, value, 3, node)
                if comps is not None:
                    rows = [list(r) for r in container.rows]
                    for i in range(3):
                        rows[i][3] = comps[i]
                    return Mat(rows)
            return TOP
        return TOP

    def to_sequence(self, interp, name, v, node):
        if isinstance(v, A):
            return v
        return NotImplemented

    def seq_repeat(self, interp, seq, other, node):
        return NotImplemented

    # ------------------------------------------------------------------ matrices
    def matmul(self, l: Mat, r: Mat) -> Mat:
        n, k, m = len(l.rows), len(r.rows), len(r.rows[0])
        out = []
        for i in range(n):
            row = []
            for j in range(m):
                acc = mkA(0)
                for t in range(k):
                    x, y = l.rows[i][t], r.rows[t][j]
                    acc = self.add(acc, A(x.num * y.num, x.den * y.den))
                row.append(self.norm(acc))
            out.append(row)
        return Mat(out)

    def rot_matrix(self, name: str) -> Mat:
        return Mat([[self.sym(f"{name}{i}{j}") for j in range(3)] for i in range(3)])

    # ------------------------------------------------------------------ calls
    def call_external(self, interp, name, recv, args, kwargs, node):
        if name is None:
            return TOP
        last = name.rsplit(".", 1)[-1]
        if name.startswith("value."):
            a = self.lift(recv) if recv is not None else None
            if isinstance(recv, RotSym):
                if last == "as_matrix":
                    return self.rot_matrix(recv.name)
                if last == "inv":
                    return RotSym(recv.name + "inv")
                return TOP
            if a is not None:
                if last in ("astype",):
                    t = norm_src(node.args[0]) if node.args else (norm_src(node.keywords[0].value) if node.keywords else "")
                    if "int" in t and "uint" not in t or "int" in t:
                        return self.opaque("int", a)
                    return a
                if last in ("copy", "ravel", "reshape", "squeeze", "tolist", "item", "flatten"):
                    return a
                if last in ("dot", "sum", "mean", "max", "min"):
                    return TOP
            return TOP
        if name in ("builtins.int",):
            a = self.lift(args[0]) if args else None
            return self.opaque("int", a) if a is not None else TOP
        if name in ("builtins.float", "numpy.float32", "numpy.float64", "numpy.asarray", "numpy.array", "numpy.atleast_1d",
                    "builtins.tuple", "builtins.list", "numpy.ascontiguousarray"):
            if not args:
                return TOP
            v = args[0]
            if name in ("numpy.array", "numpy.asarray") and isinstance(v, Tup) and v.items and all(isinstance(r, Tup) for r in v.items):
                rows = []
                for r in v.items:
                    row = [self.lift(x) for x in r.items]
                    if any(x is None for x in row):
                        return TOP
                    rows.append(row)
                if len({len(r) for r in rows}) == 1:
                    return Mat(rows)
                return TOP
            a = self.lift(v)
            if a is not None:
                return a
            return v if isinstance(v, (Tup, ListOf)) else TOP
        if name in ("math.floor", "numpy.floor"):
            a = self.lift(args[0]) if args else None
            return self.opaque("floor", a) if a is not None else TOP
        if name in ("math.ceil", "numpy.ceil"):
            a = self.lift(args[0]) if args else None
            return self.opaque("ceil", a) if a is not None else TOP
        if name in ("builtins.round", "numpy.round", "numpy.rint", "numpy.around"):
            a = self.lift(args[0]) if args else None
            if a is None:
                return TOP
            if len(args) > 1 or "decimals" in kwargs or "ndigits" in kwargs:
                return a  # rounding to decimals: treated as identity (numerical detail)
            return self.opaque("round", a)
        if name in ("builtins.min", "builtins.max", "numpy.minimum", "numpy.maximum") and len(args) == 2:
            a, b = self.lift(args[0]), self.lift(args[1])
            if a is None or b is None:
                return TOP
            if a.equals(b):
                return a
            kind = "min" if "min" in last else "max"
            ka, kb = sorted([(a.key(), repr(a), a), (b.key(), repr(b), b)], key=lambda x: repr(x[0]))
            both_int = self.is_integer(a) and self.is_integer(b)
            return A(Poly.atom((kind, ka[0], kb[0], ka[1], kb[1], both_int, ka[2], kb[2])))
        if name in ("builtins.abs", "numpy.abs"):
            a = self.lift(args[0]) if args else None
            return A(Poly.atom(("abs", a.key(), repr(a), a))) if a is not None else TOP
        if name in ("numpy.sqrt", "math.sqrt"):
            a = self.lift(args[0]) if args else None
            return A(Poly.atom(("sqrt", a.key(), repr(a), a))) if a is not None else TOP
        if name in ("numpy.linalg.norm", "numpy.hypot", "math.hypot") and args:
            # Euclidean length: sqrt(sum(x**2)), same normal form as the spelled-out expression
            a = self.lift(args[0])
            if a is None:
                return TOP
            sq = A(a.num * a.num, a.den * a.den)
            sm = A(Poly.atom(("fn", "sum", (sq.key(),), (repr(sq),))))
            return A(Poly.atom(("sqrt", sm.key(), repr(sm), sm)))
        if name == "builtins.slice":
            vals = [None if (isinstance(x, Const) and x.value is None) else x for x in args]
            if len(vals) == 1:
                return Sl(None, vals[0])
            if len(vals) >= 2:
                return Sl(vals[0], vals[1], vals[2] if len(vals) > 2 else None)
            return TOP
        if name == "builtins.divmod" and len(args) == 2:
            a, b = self.lift(args[0]), self.lift(args[1])
            if a is None or b is None:
                return TOP
            q = self.floordiv(a, b)
            return Tup([q, self.add(a, self.neg(A(q.num * b.num, q.den * b.den)))])
        if name == "numpy.eye":
            n = 4
            if args and isinstance(args[0], A) and args[0].is_poly() and args[0].poly().is_const():
                n = int(args[0].poly().const_value())
            return Mat([[mkA(1 if i == j else 0) for j in range(n)] for i in range(n)])
        if name == "builtins.len":
            v = args[0] if args else TOP
            if isinstance(v, Tup):
                return mkA(len(v.items))
            return TOP
        if name in ("builtins.range", "numpy.arange"):
            return ListOf(self.sym("idx"))
        if name in ("builtins.sum", "numpy.sum", "numpy.prod", "numpy.mean", "numpy.max", "numpy.min") and args:
            a = self.lift(args[0])
            if a is None:
                return TOP
            return A(Poly.atom(("fn", last, (a.key(),), (repr(a),))))
        return TOP

    # ------------------------------------------------------------------ prover
    def bounds_for(self, form: Poly):
        """Known sign facts about symbols as constraints (>= 0 forms)."""
        out = []
        for a in form.atoms():
            if a[0] == "sym":
                base = a[1].split("[")[0]
                if a[1] in self.positive or base in self.positive:
                    out.append((Poly.atom(a) - Poly.const(1), "int" if self.is_integer_atom(a) else "real"))
                elif a[1] in self.nonneg or base in self.nonneg:
                    out.append((Poly.atom(a), "real"))
        return out

    def to_ge(self, c: BoolC):
        """Constraint as list of polynomials p with meaning p >= 0 (integers: strict -> -1)."""
        d = c.diff
        if not d.is_poly():
            return None
        p = d.poly()
        integer = self.is_integer(A(p))
        if c.op == ">=":
            return [p]
        if c.op == "<=":
            return [-p]
        if c.op == ">":
            return [p - Poly.const(1)] if integer else [p]
        if c.op == "<":
            return [-p - Poly.const(1)] if integer else [-p]
        if c.op == "==":
            return [p, -p]
        return None

    # ------------------------------------------------------------------ facts about atoms
    def _atom_own_facts(self, a, level: int):
        """(facts, inner polys) for one atom.  Conditional facts are established by nested proofs that only involve
        the atom's own (structurally smaller) arguments, so the recursion is well-founded."""
        cache = self.__dict__.setdefault("_fact_cache", {})
        k = _key(a)
        if k in cache:
            return cache[k]
        at = Poly.atom(a)
        facts, inner = [], []

        def nested(p: Poly) -> bool:
            if level >= 6:
                return False
            return self.prove_ge(p, (), _level=level + 1)

        if a[0] == "sym":
            base = a[1].split("[")[0]
            if a[1] in self.positive or base in self.positive:
                facts.append(at - Poly.const(1) if self.is_integer_atom(a) else at)
            elif a[1] in self.nonneg or base in self.nonneg:
                facts.append(at)
            rng = getattr(self, "ranges", {}).get(a[1])
            if rng is not None:
                lo, hi = rng
                if lo is not None and lo.is_poly():
                    facts.append(at - lo.poly())
                    inner.append(lo.poly())
                if hi is not None and hi.is_poly():
                    facts.append(hi.poly() - at)
                    inner.append(hi.poly())
        elif a[0] in ("floor", "ceil", "int", "round") and isinstance(a[-1], A) and a[-1].is_poly():
            y = a[-1].poly()
            inner.append(y)
            frac = None
            for k_ in (2, 3, 4):
                if self.is_integer(A(y.scale(k_))):
                    frac = Fraction(k_ - 1, k_)
                    break
            if a[0] == "floor":
                facts += [y - at, at - y + Poly.const(frac if frac is not None else 1)]
            elif a[0] == "ceil":
                facts += [at - y, y - at + Poly.const(frac if frac is not None else 1)]
            elif a[0] == "round":
                facts += [at - y + Poly.const(Fraction(1, 2)), y - at + Poly.const(Fraction(1, 2))]
            else:  # int: truncation toward zero
                facts += [at - y + Poly.const(1), y - at + Poly.const(1)]
                if nested(y):
                    facts += [y - at, at]
                    if frac is not None:
                        facts.append(at - y + Poly.const(frac))
                elif nested(-y):
                    facts += [at - y, -at]
        elif a[0] == "floordiv" and isinstance(a[-1], A) and a[-1].is_poly():
            y, k_ = a[-1].poly(), a[2]
            inner.append(y)
            facts += [y - at.scale(k_), at.scale(k_) - y + Poly.const(k_ - 1 if self.is_integer(a[-1]) else k_)]
        elif a[0] in ("min", "max") and isinstance(a[-1], A) and isinstance(a[-2], A) and a[-1].is_poly() and a[-2].is_poly():
            x, y = a[-2].poly(), a[-1].poly()
            inner += [x, y]
            if a[0] == "min":
                facts += [x - at, y - at]
            else:
                facts += [at - x, at - y]
        elif a[0] == "abs" and isinstance(a[-1], A) and a[-1].is_poly():
            y = a[-1].poly()
            inner.append(y)
            facts += [at - y, at + y]
        elif a[0] == "sqrt":
            facts.append(at)
        cache[k] = (facts, inner)
        return cache[k]

    def atom_facts(self, polys, level=0) -> list:
        """Sound facts (p >= 0) about every atom occurring in ``polys`` (closure over nested arguments and ranges)."""
        seen = set()
        work = []
        for p in polys:
            work += list(p.atoms())
        facts = []
        while work:
            a = work.pop()
            k = _key(a)
            if k in seen:
                continue
            seen.add(k)
            f, inner = self._atom_own_facts(a, level)
            facts += f
            for q in inner:
                work += list(q.atoms())
        return facts

    def prove_ge(self, goal: Poly, pcs, extra=(), _level=0, _split=True, **_ignored) -> bool:
        """Is ``goal >= 0`` implied by the path conditions, ``extra`` facts and the sound bounds of the atoms?
        Exact Fourier-Motzkin refutation of {facts >= 0, -goal > 0} over the rationals (atoms / monomials as free variables,
        integer tightening, facts multiplied by positive symbols), with a complete case split over the min/max atoms
        involved when the direct attempt fails."""
        cons = []
        for c in pcs:
            if isinstance(c, BoolC):
                g = self.to_ge(c)
                if g:
                    cons += g
        cons += list(extra)
        base = list(cons)
        facts = self.atom_facts([goal] + cons, _level)
        rows = self._rows(goal, cons + facts)
        if _fm_infeasible(rows, is_int=self.is_integer_atom):
            return True
        if not _split:
            return False
        mm = self._minmax_atoms([goal] + cons + facts)
        if not mm or len(mm) > 5:
            return False
        return self._split_prove(goal, base, mm, _level)

    def _rows(self, goal: Poly, cons: list):
        """Rows for FM; facts of degree <= 1 are additionally multiplied by the positive symbols that occur in non-linear monomials."""
        pos = set()
        for p in [goal] + cons:
            for m in p.t:
                if len(m) > 1 or any(pw > 1 for _, pw in m):
                    for a, _ in m:
                        if a[0] == "sym":
                            b = a[1].split("[")[0]
                            if a[1] in self.positive or b in self.positive:
                                pos.add(a)
        extra = []
        for u in list(pos)[:2]:
            up = Poly.atom(u)
            for c in cons:
                if c.is_linear():
                    extra.append(c * up)
        return [(c, False) for c in cons + extra] + [(-goal, True)]

    def _minmax_atoms(self, polys):
        out = {}
        work = []
        for p in polys:
            work += list(p.atoms())
        seen = set()
        while work:
            a = work.pop()
            k = _key(a)
            if k in seen:
                continue
            seen.add(k)
            if a[0] in ("min", "max") and isinstance(a[-1], A) and isinstance(a[-2], A) and a[-1].is_poly() and a[-2].is_poly():
                out[k] = a
                work += list(a[-1].poly().atoms()) + list(a[-2].poly().atoms())
            elif a[0] in ("floor", "ceil", "int", "round", "floordiv", "abs") and isinstance(a[-1], A) and a[-1].is_poly():
                work += list(a[-1].poly().atoms())
            elif a[0] == "sym":
                rng = getattr(self, "ranges", {}).get(a[1])
                if rng is not None:
                    for b in rng:
                        if b is not None and b.is_poly():
                            work += list(b.poly().atoms())
        return list(out.values())

    def _split_prove(self, goal: Poly, cons: list, mm: list, level: int) -> bool:
        import itertools as _it
        for choice in _it.product((0, 1), repeat=len(mm)):
            mapping = {}
            side = []
            for a, ch in zip(mm, choice):
                x, y = a[-2].poly(), a[-1].poly()
                pick, other = (x, y) if ch == 0 else (y, x)
                mapping[a] = pick
                side.append(other - pick if a[0] == "min" else pick - other)

            def sub(p):
                for _ in range(3):
                    p = p.subs(mapping)
                return p
            g = sub(goal)
            cs = [sub(c) for c in cons] + [sub(c) for c in side]
            facts = [sub(f_) for f_ in self.atom_facts([goal] + cons + side, level)]
            if not _fm_infeasible(self._rows(g, cs + facts), is_int=self.is_integer_atom):
                return False
        return True

    def proves_equal(self, a: "A", b: "A", pcs=(), extra=()) -> bool:
        """a == b, syntactically or as the two inequalities a - b >= 0 and b - a >= 0 under the path conditions (the inequality prover splits over the
        min / max atoms, so `max(z, 0) - max(-z, 0) == z` is decided)."""
        if a.equals(b):
            return True
        d = self.add(a, self.neg(b))
        if not d.is_poly():
            return False
        try:
            return bool(self.prove_ge(d.poly(), pcs, extra=extra) and self.prove_ge((self.neg(d)).poly(), pcs, extra=extra))
        except Exception:
            return False

    def infeasible(self, pcs) -> bool:
        """Path conditions contradict each other (prove -1 >= 0)."""
        try:
            return self.prove_ge(Poly.const(-1), pcs)
        except Exception:
            return False

    def decide(self, c, pcs=(), extra=()):
        """Truth of a symbolic condition on every state that satisfies the path conditions: True / False / None (depends on the state, or not provable)."""
        if isinstance(c, Const):
            return bool(c.value)
        if isinstance(c, BoolC):
            def alts(cc):
                return [BoolC(cc.diff, "<"), BoolC(cc.diff, ">")] if cc.op == "!=" else [cc]

            def never(cc):
                try:
                    return all(self.prove_ge(Poly.const(-1), list(pcs) + [x], extra) for x in alts(cc))
                except Exception:
                    return False
            if never(c.negate()):
                return True
            if never(c):
                return False
            return None
        if isinstance(c, (BoolOr, BoolAnd)):
            vals = [self.decide(x, pcs, extra) for x in c.parts]
            if isinstance(c, BoolOr):
                return True if any(v is True for v in vals) else (False if all(v is False for v in vals) else None)
            return False if any(v is False for v in vals) else (True if all(v is True for v in vals) else None)
        return None

    def sign_positive(self, p: Poly) -> bool:
        """p is a single monomial with positive coefficient whose atoms are all known-positive symbols."""
        if len(p.t) != 1:
            return False
        (m, c), = p.t.items()
        if c <= 0:
            return False
        for a, pw in m:
            if a[0] != "sym":
                return False
            base = a[1].split("[")[0]
            if not (a[1] in self.positive or base in self.positive):
                return False
        return True

    def prove_ge_form(self, v: "A", pcs=(), extra=()) -> bool | None:
        """v >= 0 for a rational form; None when the denominator's sign is unknown."""
        if v.is_poly():
            return self.prove_ge(v.poly(), pcs, extra)
        if self.sign_positive(v.den):
            return self.prove_ge(v.num, pcs, extra)
        return None

    def prove_gt(self, goal: Poly, pcs, extra=()) -> bool:
        """goal > 0 ; for integer-valued goals this is goal - 1 >= 0."""
        if self.is_integer(A(goal)):
            return self.prove_ge(goal - Poly.const(1), pcs, extra)
        cons = []
        for c in pcs:
            if isinstance(c, BoolC):
                g = self.to_ge(c)
                if g:
                    cons += g
        cons += list(extra)
        cons += self.atom_facts([goal] + cons)
        rows = self._rows(goal, cons)
        rows[-1] = (-goal, False)
        return _fm_infeasible(rows, is_int=self.is_integer_atom)

    # ------------------------------------------------------------------ evaluation of forms / witness search
    def eval_poly(self, p: Poly, asg: dict):
        total = Fraction(0)
        for m, c in p.t.items():
            x = Fraction(c)
            for a, pw in m:
                v = self.eval_atom(a, asg)
                if v is None:
                    return None
                x *= Fraction(v) ** pw
            total += x
        return total

    def eval_form(self, v: "A", asg: dict):
        n = self.eval_poly(v.num, asg)
        d = self.eval_poly(v.den, asg)
        if n is None or d is None or d == 0:
            return None
        return n / d

    def eval_atom(self, a, asg: dict):
        import math
        if a[0] == "sym":
            return asg.get(a[1])
        if a[0] in ("int", "floor", "ceil", "round", "abs", "sqrt"):
            y = self.eval_form(a[-1], asg) if isinstance(a[-1], A) else None
            if y is None:
                return None
            if a[0] == "int":
                return Fraction(math.trunc(y))
            if a[0] == "floor":
                return Fraction(math.floor(y))
            if a[0] == "ceil":
                return Fraction(math.ceil(y))
            if a[0] == "round":
                return Fraction(round(y))
            if a[0] == "abs":
                return abs(y)
            return None
        if a[0] == "floordiv":
            y = self.eval_form(a[-1], asg)
            return None if y is None else Fraction(math.floor(y / a[2]))
        if a[0] in ("min", "max"):
            x, y = self.eval_form(a[-2], asg), self.eval_form(a[-1], asg)
            if x is None or y is None:
                return None
            return min(x, y) if a[0] == "min" else max(x, y)
        return None

    def base_syms(self, forms) -> list:
        """All symbols reachable from the forms (through nested atoms and ranges)."""
        out, seen, work = [], set(), []
        for f in forms:
            work += list(f.num.atoms()) + list(f.den.atoms())
        while work:
            a = work.pop()
            k = _key(a)
            if k in seen:
                continue
            seen.add(k)
            if a[0] == "sym":
                out.append(a[1])
                rng = getattr(self, "ranges", {}).get(a[1])
                if rng:
                    for b in rng:
                        if b is not None:
                            work += list(b.num.atoms()) + list(b.den.atoms())
            else:
                for x in a:
                    if isinstance(x, A):
                        work += list(x.num.atoms()) + list(x.den.atoms())
        return out

    def find_witness(self, goal: "A", pcs=(), tol=Fraction(0), tries: int = 4000, seed: int = 0):
        """Search a concrete assignment of the symbols (respecting sign facts, ranges and path conditions) under which
        ``goal < -tol``.  Evaluates the extracted forms only; the analysed code is never run."""
        import random
        rnd = random.Random(seed)
        syms_ = self.base_syms([goal] + [c.diff for c in pcs if isinstance(c, BoolC)])
        ranged = [s_ for s_ in syms_ if s_ in getattr(self, "ranges", {})]
        free = [s_ for s_ in syms_ if s_ not in ranged]
        # order ranged symbols by creation index so that bounds are evaluable
        def idx(nm):
            try:
                return int(nm.split("#")[1])
            except Exception:
                return 0
        ranged.sort(key=idx)
        real_vals = [Fraction(0), Fraction(3, 10), Fraction(1, 2), Fraction(7, 10), Fraction(1), Fraction(213, 100), Fraction(5, 2), Fraction(3)]
        int_vals = [1, 2, 3, 4, 5, 6, 7, 9, 20]
        for _ in range(tries):
            asg = {}
            for s_ in free:
                b = s_.split("[")[0]
                is_int = s_ in self.integer or b in self.integer
                pos = s_ in self.positive or b in self.positive
                nn = s_ in self.nonneg or b in self.nonneg
                if is_int:
                    v = rnd.choice(int_vals) if pos else (rnd.choice([0] + int_vals) if nn else rnd.choice([-3, -1, 0] + int_vals))
                else:
                    v = rnd.choice(real_vals[1:]) if pos else (rnd.choice(real_vals) if nn else rnd.choice([-x for x in real_vals] + real_vals))
                asg[s_] = Fraction(v)
            ok = True
            for s_ in ranged:
                lo, hi = self.ranges[s_]
                lo_v = self.eval_form(lo, asg) if lo is not None else Fraction(-5)
                hi_v = self.eval_form(hi, asg) if hi is not None else Fraction(5)
                if lo_v is None or hi_v is None or lo_v > hi_v:
                    ok = False
                    break
                if s_ in self.integer:
                    import math
                    a_, b_ = math.ceil(lo_v), math.floor(hi_v)
                    if a_ > b_:
                        ok = False
                        break
                    asg[s_] = Fraction(rnd.choice([a_, b_, rnd.randint(a_, b_)]))
                else:
                    asg[s_] = rnd.choice([lo_v, hi_v, (lo_v + hi_v) / 2])
            if not ok:
                continue
            for c in pcs:
                if isinstance(c, BoolC):
                    v = self.eval_form(c.diff, asg)
                    if v is None or not {"<": v < 0, "<=": v <= 0, ">": v > 0, ">=": v >= 0, "==": v == 0, "!=": v != 0}[c.op]:
                        ok = False
                        break
            if not ok:
                continue
            g = self.eval_form(goal, asg)
            if g is not None and g < -tol:
                return {k: (float(v) if v.denominator != 1 else int(v)) for k, v in asg.items()}, float(g)
        return None

    def witness(self, goal: Poly, pcs, rng=range(-3, 5)):
        """Small integer assignment of the symbols satisfying the path conditions with goal < 0
        (evaluation of the extracted forms only; the analysed code is not run)."""
        forms = [goal]
        cons = []
        for c in pcs:
            if isinstance(c, BoolC) and c.diff.is_poly():
                cons.append((c.diff.poly(), c.op))
                forms.append(c.diff.poly())
        atoms = set()
        for f in forms:
            atoms |= f.atoms()
        syms = sorted((a for a in atoms if a[0] == "sym"), key=_key)
        if any(a[0] != "sym" for a in atoms) or len(syms) > 4:
            return None
        for vals in itertools.product(rng, repeat=len(syms)):
            asg = dict(zip(syms, vals))
            ok = True
            for s, v in asg.items():
                base = s[1].split("[")[0]
                if (s[1] in self.positive or base in self.positive) and v < 1:
                    ok = False
                if (s[1] in self.nonneg or base in self.nonneg) and v < 0:
                    ok = False
            if not ok:
                continue

            def ev(p):
                t = Fraction(0)
                for m, c in p.t.items():
                    x = c
                    for a, pw in m:
                        x *= Fraction(asg[a]) ** pw
                    t += x
                return t

            for p, op in cons:
                v = ev(p)
                if not {"<": v < 0, "<=": v <= 0, ">": v > 0, ">=": v >= 0, "==": v == 0, "!=": v != 0}[op]:
                    ok = False
                    break
            if ok and ev(goal) < 0:
                return {fmt_atom(k): v for k, v in asg.items()}
        return None


def _fm_infeasible(rows, limit=4000, is_int=None) -> bool:
    """rows: list of (linear Poly p, strict) meaning p >= 0 (or p > 0).  True iff the system has no rational solution
    (with integer tightening of rows whose variables are all integer-valued)."""
    intvar: dict = {}

    def lin(p):
        # every distinct monomial is an independent variable (sound relaxation for non-linear terms)
        d = {}
        c = Fraction(0)
        for m, v in p.t.items():
            if m == ():
                c = v
            else:
                k = repr(tuple((_key(a), pw) for a, pw in m))
                d[k] = v
                if is_int is not None and k not in intvar:
                    intvar[k] = all(is_int(a) for a, _ in m)
        return d, c

    def tighten(d, c, st):
        if not d or is_int is None or not all(intvar.get(k, False) for k in d):
            return d, c, st
        import math
        den = 1
        for v in d.values():
            den = den * v.denominator // math.gcd(den, v.denominator)
        g = 0
        for v in d.values():
            g = math.gcd(g, int(v * den))
        if g == 0:
            return d, c, st
        f = Fraction(den, g)
        d2 = {k: v * f for k, v in d.items()}
        c2 = c * f
        # sum(int) + c2 >= 0 (or > 0)  ->  sum(int) >= ceil(-c2)  (strict: > -c2 -> >= floor(-c2)+1)
        if st:
            c3 = -(math.floor(-c2) + 1)
            return d2, Fraction(c3), False
        return d2, Fraction(math.floor(c2)), False

    sys_ = [(lin(p) + (st,)) for p, st in rows]
    sys_ = [tighten(d, c, st) for (d, c, st) in sys_]
    variables = set()
    for d, c, st in sys_:
        variables |= set(d)
    for v in sorted(variables):
        pos = [(d, c, st) for d, c, st in sys_ if d.get(v, 0) > 0]
        neg = [(d, c, st) for d, c, st in sys_ if d.get(v, 0) < 0]
        rest = [(d, c, st) for d, c, st in sys_ if d.get(v, 0) == 0]
        new = rest
        for d1, c1, s1 in pos:
            for d2, c2, s2 in neg:
                a, b = d1[v], -d2[v]
                d = {}
                for k in set(d1) | set(d2):
                    if k == v:
                        continue
                    val = d1.get(k, 0) * b + d2.get(k, 0) * a
                    if val != 0:
                        d[k] = val
                new.append(tighten(d, c1 * b + c2 * a, s1 or s2))
        if len(new) > limit:
            return False
        # drop duplicates
        seen = set()
        sys_ = []
        for d, c, st in new:
            key = (tuple(sorted(d.items())), c, st)
            if key not in seen:
                seen.add(key)
                sys_.append((d, c, st))
    for d, c, st in sys_:
        if not d:
            if (st and c <= 0) or (not st and c < 0):
                return True
    return False
