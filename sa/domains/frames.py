"""F - coordinate frames (DESIGN 4.2).

Frames: 'W' tomogram/world axes, 'M' axes of the molecule as given (= axes of the loaded
sub-volume box), 'Mp' axes of the aligned particle / of the template.
``Rot(src, dst)`` maps coordinates expressed in ``src`` to coordinates expressed in ``dst``.
A frame clash (``R.apply(v)`` with v not in R.src, ``A*B`` with B.dst != A.src, adding
vectors of different frames, box-shape scaling outside the box frame, pairing component k
with the wrong axis) is recorded as an event = refutation at that construct.
"""
from __future__ import annotations

import ast
from dataclasses import dataclass, field, replace

from ..absint import TOP, ClassRef, Const, DictV, Domain, ExtRef, FuncRef, ListOf, Obj, Tup
from ..repo import FuncInfo, norm_src

AXIS_NAMES = {0: "z", 1: "y", 2: "x"}


@dataclass(frozen=True)
class Rot:
    src: str
    dst: str
    conj: tuple | None = None  # ("Mp","M") : this W->W rotation is Q R Q^-1 of R:Mp->M via Q:M->W
    maybe_none = False

    def inv(self):
        if self.conj:
            return Rot(self.src, self.dst, (self.conj[1], self.conj[0]))
        return Rot(self.dst, self.src)

    def __repr__(self):
        c = f" conj({self.conj[0]}->{self.conj[1]})" if self.conj else ""
        return f"Rot[{self.src}->{self.dst}{c}]"


@dataclass(frozen=True)
class Vec:
    frame: str
    kind: str = "vec"  # vec | axis | normal | grid | pos
    axis: int | None = None  # for kind == axis: which reference axis (0=z,1=y,2=x) of frame `of`
    sign: int = 1
    scale: str | None = None  # None | 'mul' | 'div'  (multiplied / divided by the box shape)
    of: str | None = None
    moved: frozenset = frozenset()
    tag: str = ""
    maybe_none = False

    def __repr__(self):
        s = f"Vec[{self.frame}"
        if self.kind != "vec":
            s += f",{self.kind}"
        if self.axis is not None:
            s += f":{'-' if self.sign < 0 else ''}{AXIS_NAMES[self.axis]}({self.of})"
        if self.scale:
            s += f",{'x' if self.scale == 'mul' else '/'}shape"
        if self.moved:
            s += ",moved=" + "+".join(sorted(self.moved))
        if self.tag:
            s += f",{self.tag}"
        return s + "]"


@dataclass(frozen=True)
class RotVecV:
    rot: Rot
    frame: str  # frame in which the components are expressed
    maybe_none = False

    def __repr__(self):
        return f"RotVec[{self.rot!r} in {self.frame}]"


@dataclass(frozen=True)
class Quat:
    rot: Rot
    maybe_none = False

    def __repr__(self):
        return f"Quat[{self.rot!r}]"


@dataclass(frozen=True)
class RotMat:
    rot: Rot
    maybe_none = False


@dataclass(frozen=True)
class Comp:
    vec: object
    k: int

    def __repr__(self):
        return f"Comp[{self.k} of {self.vec!r}]"


@dataclass(frozen=True)
class Lin:
    """Partial sum  sum_k axis_k(of frame `of`, expressed in `frame`) * comp_k(src)."""

    frame: str
    of: str
    src: object
    ks: frozenset

    def __repr__(self):
        return f"Lin[{self.frame}; axes of {self.of}; comps {sorted(self.ks)} of {self.src!r}]"


@dataclass(frozen=True)
class UnitVec:
    k: int


@dataclass(frozen=True)
class ShapeVec:
    pass


@dataclass(frozen=True)
class Scalar:
    maybe_none = False

    def __repr__(self):
        return "Scalar"


@dataclass(frozen=True)
class Poly:
    """zeros / identity placeholder: joins to the other value."""

    def __repr__(self):
        return "Poly"


@dataclass(frozen=True)
class AffT:
    """Affine matrix  T(c_in) R T(-c_out)  built by compose_matrices: maps output-image
    coordinates (frame rot.src) to input-image coordinates (frame rot.dst)."""

    rot: Rot
    pre_shift: tuple = ()  # Vec frames of T(s) applied on the input side
    maybe_none = False

    def __repr__(self):
        return f"Aff[{self.rot.src}->{self.rot.dst}]"


@dataclass(frozen=True)
class TransT:
    vec: object


@dataclass(frozen=True)
class Eye4:
    pass


SCALAR = Scalar()
POLY = Poly()

ROT_CTORS = {"from_quat", "from_rotvec", "from_matrix", "from_euler", "identity", "random", "concatenate", "from_mrp"}

PRESERVE = {"numpy.asarray", "numpy.array", "numpy.atleast_2d", "numpy.atleast_1d", "numpy.stack", "numpy.copy",
            "numpy.round", "numpy.float32", "numpy.ascontiguousarray", "numpy.squeeze", "numpy.concatenate", "builtins.tuple",
            "builtins.list"}
PRESERVE_M = {"astype", "copy", "reshape", "squeeze", "round", "tolist"}


class FramesDomain(Domain):
    name = "F"

    def __init__(self, model, param_seeds=None, field_seeds=None):
        self.model = model
        self.events: list = []
        self.param_seeds = param_seeds or {}
        self.field_seeds = field_seeds or {}
        self._cls = {c.name: c for c in model.all_classes}

    def clash(self, interp, node, msg):
        self.events.append(("clash", interp.cur_fn, node, msg))

    # ------------------------------------------------------------------ seeds
    def const(self, interp, value, node):
        return Const(value)

    def alignment_result(self):
        table = {"label": SCALAR, "shift": Vec("M", tag="shift"), "quat": Quat(Rot("Mp", "M")), "score": SCALAR}
        ci = self._cls.get("AlignmentResult")
        if ci is None:
            return TOP
        fields = [st.target.id for st in ci.node.body if isinstance(st, ast.AnnAssign) and isinstance(st.target, ast.Name)]
        return Tup([table.get(f, TOP) for f in fields])

    def seed_param(self, interp, fn: FuncInfo, arg: ast.arg):
        key = (fn.anchor, arg.arg)
        if key in self.param_seeds:
            return self.param_seeds[key]
        ann = arg.annotation
        txt = ""
        if ann is not None:
            txt = ann.value if isinstance(ann, ast.Constant) and isinstance(ann.value, str) else norm_src(ann)
        if "AlignmentResult" in txt:
            t = self.alignment_result()
            return ListOf(t) if ("list" in txt or "Sequence" in txt or "Iterable" in txt) else t
        if arg.arg in ("scale", "copy", "order", "cval", "binsize"):
            return SCALAR
        if "Molecules" in txt and "Molecules" in self._cls and "list" not in txt and "Iterable" not in txt:
            return self.molecules_obj()
        ci = self.model.annotation_class(fn.module, ann)
        if ci is not None:
            return Obj(ci)
        return TOP

    def molecules_obj(self, frame="M"):
        o = Obj(self._cls["Molecules"])
        o.fields["_rotator"] = Rot(frame, "W")
        o.fields["_pos"] = Vec("W", kind="pos")
        o.fields["_features"] = TOP
        return o

    def seed_field(self, interp, obj: Obj, name: str, node):
        key = (obj.cls.name, name)
        if key in self.field_seeds:
            return self.field_seeds[key]
        if name in ("scale", "_scale"):
            return SCALAR
        mol = self._cls.get("Molecules")
        if mol is not None and obj.cls.is_subclass_of(mol):
            if name == "_rotator":
                return Rot("M", "W")
            if name == "_pos":
                return Vec("W", kind="pos")
            return TOP
        if name in ("molecules", "_molecules") and mol is not None:
            return self.molecules_obj()
        if obj.cls.name == "AlignmentResult":
            t = self.alignment_result()
            ci = obj.cls
            fields = [st.target.id for st in ci.node.body if isinstance(st, ast.AnnAssign) and isinstance(st.target, ast.Name)]
            if name in fields and isinstance(t, Tup):
                return t.items[fields.index(name)]
        if name == "quaternions":
            return Quat(Rot("Mp", "M"))
        return TOP

    def attr(self, interp, val, name, node):
        if isinstance(val, (Vec, RotVecV, Quat, Comp)) and name in ("T", "real"):
            return val
        if name == "shape" and not isinstance(val, Obj):
            return ShapeVec()
        return NotImplemented

    # ------------------------------------------------------------------ algebra
    def is_scalar(self, v):
        return isinstance(v, Scalar) or (isinstance(v, Const) and isinstance(v.value, (int, float)) and not isinstance(v.value, bool))

    def binop(self, interp, op, l, r, node):
        if isinstance(op, ast.MatMult):
            return self.matmul(interp, l, r, node)
        if isinstance(op, ast.Mult):
            if isinstance(l, Rot) and isinstance(r, Rot):
                return self.compose(interp, l, r, node)
            for a, b in ((l, r), (r, l)):
                if isinstance(a, Vec):
                    if self.is_scalar(b) or isinstance(b, Poly):
                        return a
                    if isinstance(b, ShapeVec):
                        return self.scale_vec(interp, a, "mul", node)
                    if isinstance(b, Comp):
                        return self.term(interp, a, b, node)
                    if isinstance(b, Vec) and a.kind == "axis" and b.kind != "axis":
                        return TOP
                    return TOP
                if isinstance(a, (RotVecV, Comp)) and self.is_scalar(b):
                    return a
                if isinstance(a, ShapeVec) and self.is_scalar(b):
                    return a
            if self.is_scalar(l) and self.is_scalar(r):
                return SCALAR
            return TOP
        if isinstance(op, ast.Div):
            if isinstance(l, Vec):
                if self.is_scalar(r):
                    return l
                if isinstance(r, ShapeVec):
                    return self.scale_vec(interp, l, "div", node)
                return TOP
            if isinstance(l, ShapeVec) and self.is_scalar(r):
                return l
            if self.is_scalar(l) and self.is_scalar(r):
                return SCALAR
            return TOP
        if isinstance(op, (ast.Add, ast.Sub)):
            return self.add(interp, l, r, node, isinstance(op, ast.Sub))
        if self.is_scalar(l) and self.is_scalar(r):
            return SCALAR
        return TOP

    def scale_vec(self, interp, v: Vec, how: str, node):
        if v.frame != "M":
            self.clash(interp, node, f"box-shape scaling ({'*' if how == 'mul' else '/'} shape) applied to {v!r}: the box shape is "
                                     f"anisotropic in the box frame M only; scale after mapping into M")
        if v.scale is not None:
            return replace(v, scale=None if v.scale != how else "?")
        return replace(v, scale=how)

    def add(self, interp, l, r, node, sub):
        if isinstance(l, Poly):
            return r
        if isinstance(r, Poly):
            return l
        if isinstance(l, Lin) and isinstance(r, Lin):
            if l.frame == r.frame and l.of == r.of and l.src == r.src and not (l.ks & r.ks) and not sub:
                ks = l.ks | r.ks
                if ks == frozenset({0, 1, 2}):
                    return self.lin_complete(l.frame, l.of, l.src)
                return Lin(l.frame, l.of, l.src, ks)
            self.clash(interp, node, f"sum of axis*component terms is inconsistent: {l!r} vs {r!r}")
            return TOP
        if isinstance(l, Vec) and isinstance(r, Vec):
            if l.frame != r.frame:
                self.clash(interp, node, f"adding vectors of different frames: {l!r} and {r!r}")
                return TOP
            if l.kind == "pos" and r.kind != "pos":
                desc = ("-" if sub else "") + (r.tag or r.kind)
                return replace(l, moved=l.moved | {desc})
            if r.kind == "pos" and l.kind != "pos" and not sub:
                return replace(r, moved=r.moved | {l.tag or l.kind})
            if l.kind == "pos" and r.kind == "pos":
                return Vec(l.frame, tag="pos-diff") if sub else TOP
            return Vec(l.frame, scale=l.scale if l.scale == r.scale else "?", tag=l.tag if l.tag == r.tag else "")
        if isinstance(l, Vec) and (self.is_scalar(r)):
            return l
        if isinstance(r, Vec) and (self.is_scalar(l)):
            return r
        if self.is_scalar(l) and self.is_scalar(r):
            return SCALAR
        if isinstance(l, ShapeVec) and self.is_scalar(r):
            return l
        return TOP

    def term(self, interp, axisvec: Vec, comp: Comp, node):
        if axisvec.kind != "axis" or axisvec.axis is None:
            return TOP
        if axisvec.axis != comp.k or axisvec.sign != 1:
            self.clash(interp, node, f"component {comp.k} ({AXIS_NAMES[comp.k]}) of {comp.vec!r} is paired with the "
                                     f"{'-' if axisvec.sign < 0 else ''}{AXIS_NAMES[axisvec.axis]} axis (z,y,x order requires 0:z 1:y 2:x)")
            return TOP
        src = comp.vec
        srcframe = src.frame if isinstance(src, (Vec, RotVecV)) else None
        if srcframe is not None and srcframe != axisvec.of:
            self.clash(interp, node, f"components of {src!r} are combined with the axes of frame {axisvec.of}")
            return TOP
        return Lin(axisvec.frame, axisvec.of, src, frozenset({comp.k}))

    def lin_complete(self, frame, of, src):
        if isinstance(src, RotVecV):
            return RotVecV(src.rot, frame)
        if isinstance(src, Vec):
            return replace(src, frame=frame, tag=(src.tag + "@" + of + "->" + frame).strip("@"))
        return TOP

    def compose(self, interp, a: Rot, b: Rot, node):
        """a * b : apply b first."""
        if a.conj is not None and b.conj is None and b.dst == a.src:
            # (Q R Q^-1) * Q = Q R   with Q: M->W, R: conj src->dst acting in frame b.src
            if b.src == a.conj[1]:
                return Rot(a.conj[0], b.dst)
            self.clash(interp, node, f"internal rotation {a!r} maps {a.conj[0]}->{a.conj[1]} but is composed with {b!r} whose own frame is "
                                     f"{b.src} (rotation applied with the wrong sense)")
            return TOP
        if b.dst != a.src:
            self.clash(interp, node, f"rotation composition {a!r} * {b!r}: right operand maps into {b.dst}, left operand expects {a.src}")
            return TOP
        if a.conj is not None or b.conj is not None:
            return Rot(b.src, a.dst)
        return Rot(b.src, a.dst)

    def matmul(self, interp, l, r, node):
        # T(s) @ Aff  : s lives in the input space (Aff.rot.dst) ;  Aff @ T(s): s lives in the output space
        if isinstance(l, TransT) and isinstance(r, AffT):
            v = l.vec
            if isinstance(v, Vec) and v.frame != r.rot.dst:
                self.clash(interp, node, f"T(shift) @ A: shift {v!r} must be expressed in the input frame {r.rot.dst} of {r!r}")
            return AffT(r.rot, r.pre_shift + ((v.frame if isinstance(v, Vec) else "?"),))
        if isinstance(l, AffT) and isinstance(r, TransT):
            v = r.vec
            if isinstance(v, Vec) and v.frame != l.rot.src:
                self.clash(interp, node, f"A @ T(shift): shift {v!r} would have to be expressed in the output frame {l.rot.src} of {l!r}")
            return AffT(l.rot, l.pre_shift)
        if isinstance(l, AffT) and isinstance(r, AffT):
            if r.rot.dst != l.rot.src:
                self.clash(interp, node, f"affine composition {l!r} @ {r!r}: frames do not chain")
                return TOP
            return AffT(Rot(r.rot.src, l.rot.dst))
        if isinstance(l, Eye4):
            return r
        if isinstance(r, Eye4):
            return l
        return TOP

    def unary(self, interp, op, val, node):
        if isinstance(op, ast.USub):
            if isinstance(val, Vec):
                if val.kind == "axis":
                    return replace(val, sign=-val.sign)
                return val
            if isinstance(val, RotVecV):
                return RotVecV(val.rot.inv(), val.frame)
            if self.is_scalar(val):
                return SCALAR
        return TOP

    def compare(self, interp, node, vals):
        return TOP

    def join(self, interp, a, b):
        if isinstance(a, Poly):
            return b
        if isinstance(b, Poly):
            return a
        if a == b:
            return a
        if isinstance(a, Const) and a.value is None:
            return b
        if isinstance(b, Const) and b.value is None:
            return a
        if self.is_scalar(a) and self.is_scalar(b):
            return SCALAR
        return TOP

    def elem(self, interp, val, node):
        if isinstance(val, (Vec, Quat, Rot, RotVecV, RotMat)):
            return val  # a row of a batch keeps the type
        if isinstance(val, ShapeVec):
            return SCALAR
        return TOP

    def unpack(self, interp, val, n, node):
        if isinstance(val, (Vec, RotVecV)) and n == 3:
            return [Comp(val, 0), Comp(val, 1), Comp(val, 2)]
        if isinstance(val, ShapeVec):
            return [SCALAR] * n
        return NotImplemented

    def subscript(self, interp, val, index_node, index_val, node):
        if isinstance(val, (Vec, RotVecV)):
            # [:, k] selects a component; [i] / [mask] / [:, None] keep rows
            if isinstance(index_node, ast.Tuple) and len(index_node.elts) in (2, 3):
                second = index_node.elts[1]
                # v[:, k]  and  v[:, k, np.newaxis] / v[:, k, None] (the same component kept as a column)
                extra_ok = len(index_node.elts) == 2 or norm_src(index_node.elts[2]) in ("np.newaxis", "None", "numpy.newaxis")
                if isinstance(second, ast.Constant) and isinstance(second.value, int) and not isinstance(second.value, bool) and isinstance(index_node.elts[0], ast.Slice) \
                        and extra_ok:
                    return Comp(val, second.value)
            return val
        if isinstance(val, (Quat, Rot, RotMat, Comp)):
            return val
        if isinstance(val, Poly):
            return val
        if isinstance(val, ShapeVec):
            return ShapeVec() if isinstance(index_node, ast.Slice) else SCALAR
        return NotImplemented

    def store_sub(self, interp, container, index_node, index_val, value, node):
        if isinstance(value, ListOf) and not isinstance(container, Eye4):
            value = value.elem  # buf[:] = [row for ...] / buf[:] = column of zip(*rows): every row of the buffer is one such element
        if isinstance(container, Eye4) or (isinstance(container, Poly)):
            txt = norm_src(index_node).replace(" ", "").strip("()")
            if isinstance(container, Eye4):
                if txt in (":3,3", "0:3,3") and isinstance(value, Vec):
                    return TransT(value)
                if txt in (":3,:3", "0:3,0:3") and isinstance(value, RotMat):
                    return AffT(value.rot)
                return TOP
            if value is TOP:
                return TOP
            if self.is_scalar(value) or isinstance(value, Const):
                return container
            return value
        if container is TOP:
            return TOP
        if isinstance(value, ListOf):
            value = value.elem  # buf[:] = [row for ...]: every row of the buffer is one such element
        elif isinstance(value, Tup) and value.items:
            value = self.join_many(interp, list(value.items))
        return self.join(interp, container, value)

    def truth(self, interp, val):
        if isinstance(val, Const):
            if isinstance(val.value, str) and val.value.startswith("<"):
                return None
            return bool(val.value)
        return None

    # ------------------------------------------------------------------ calls
    def construct(self, interp, cls, args, kwargs, node):
        return NotImplemented

    def call_repo(self, interp, funcs, bound, args, kwargs, node):
        names = {f.name for f in funcs}
        if names == {"compose_matrices"}:
            rots = args[1] if len(args) > 1 else kwargs.get("rotators")
            r = None
            if isinstance(rots, Tup) and rots.items:
                r = rots.items[0]
            elif isinstance(rots, ListOf):
                r = rots.elem
            elif isinstance(rots, Rot):
                r = rots
            if isinstance(r, Rot):
                return ListOf(AffT(r))
            return ListOf(TOP)
        return NotImplemented

    def call_external(self, interp, name, recv, args, kwargs, node):
        if name is None:
            return TOP
        last = name.rsplit(".", 1)[-1]
        if name.startswith("value."):
            return self.method(interp, recv, last, args, kwargs, node)
        if name.startswith("scipy.spatial.transform") or name.startswith("scipy.spatial.transform.Rotation"):
            if last == "from_quat" and args:
                q = args[0]
                if isinstance(q, Quat):
                    return q.rot
                return TOP
            if last == "Rotation" and args:
                return args[0].rot if isinstance(args[0], Quat) else TOP
            if last == "from_rotvec" and args:
                v = args[0]
                if isinstance(v, RotVecV):
                    own = v.rot.dst
                    if v.frame == own or v.rot.src == v.rot.dst == v.frame:
                        return v.rot
                    if v.frame == "W" and v.rot.conj is None:
                        return Rot("W", "W", conj=(v.rot.src, v.rot.dst))
                    return TOP
                return TOP
            if last == "from_matrix" and args and isinstance(args[0], RotMat):
                return args[0].rot
            return TOP
        if name in PRESERVE:
            if not args:
                return TOP
            a = args[0]
            if isinstance(a, Tup) and name in ("numpy.array", "numpy.asarray"):
                u = self.unit_vec(a)
                if u is not None:
                    return u
                if all(isinstance(x, (Vec,)) for x in a.items) and a.items and len({x for x in a.items}) == 1:
                    return a.items[0]
                if all(self.is_scalar(x) for x in a.items):
                    return SCALAR
                return TOP
            if isinstance(a, (Tup, ListOf)) and name in ("numpy.stack", "numpy.concatenate"):
                e = interp.elem_of(a, node)
                return e
            return a
        if name in ("numpy.zeros", "numpy.zeros_like", "numpy.empty"):
            return POLY
        if name == "numpy.eye":
            return Eye4()
        if name == "numpy.cross" and len(args) >= 2:
            a, b = args[0], args[1]
            if isinstance(a, Vec) and isinstance(b, Vec) and a.kind == "axis" and b.kind == "axis" and a.frame == b.frame and a.of == b.of and a.axis != b.axis:
                k = 3 - a.axis - b.axis
                cyc = (a.axis, b.axis, k) in ((0, 1, 2), (1, 2, 0), (2, 0, 1))
                return Vec(a.frame, kind="axis", axis=k, sign=a.sign * b.sign * (1 if cyc else -1), of=a.of)
            return TOP
        if name in ("numpy.einsum",):
            return TOP
        return TOP

    def unit_vec(self, t: Tup):
        vals = []
        for x in t.items:
            if isinstance(x, Const) and isinstance(x.value, (int, float)) and not isinstance(x.value, bool):
                vals.append(float(x.value))
            else:
                return None
        if len(vals) == 3 and sorted(vals) == [0.0, 0.0, 1.0]:
            return UnitVec(vals.index(1.0))
        return None

    def method(self, interp, recv, meth, args, kwargs, node):
        if isinstance(recv, Rot):
            if meth == "inv":
                return recv.inv()
            if meth == "apply":
                v = args[0] if args else kwargs.get("vectors")
                inverse = kwargs.get("inverse", args[1] if len(args) > 1 else Const(False))
                r = recv
                if isinstance(inverse, Const) and inverse.value is True:
                    r = recv.inv()
                elif not (isinstance(inverse, Const) and inverse.value is False):
                    return TOP
                if isinstance(v, UnitVec):
                    return Vec(r.dst, kind="axis", axis=v.k, of=r.src)
                if isinstance(v, Vec):
                    if v.frame != r.src:
                        self.clash(interp, node, f"{r!r}.apply() is given {v!r}: the rotation maps frame {r.src} to {r.dst}, "
                                                 f"the vector is expressed in {v.frame}")
                        return TOP
                    return replace(v, frame=r.dst, tag=(v.tag + f"@{r.src}->{r.dst}") if v.tag else v.tag)
                return TOP
            if meth == "as_rotvec":
                return RotVecV(recv, recv.dst if recv.conj is None else "W")
            if meth == "as_quat":
                return Quat(recv)
            if meth == "as_matrix":
                return RotMat(recv)
            if meth in ("__getitem__",):
                return recv
            return TOP
        if isinstance(recv, (Vec, RotVecV, Quat, Comp)) and meth in PRESERVE_M:
            return recv
        if isinstance(recv, Vec) and meth == "dot":
            return ("dot", recv, args[0] if args else TOP)
        return TOP

    def to_sequence(self, interp, name, v, node):
        if isinstance(v, (Vec, Quat, Rot)):
            return v
        return NotImplemented
