"""U - units of measure (DESIGN 4.1).

A unit is an exponent pair (nm, px) plus an optional angle tag.  An abstract value is an
*ambiguity set* of units (a bare count may be px or dimensionless), a polymorphic
literal (fits anything additive), or a conjunction produced by joins (every member must
fit a sink).  The empty ambiguity set is a contradiction.
"""
from __future__ import annotations

import ast
from dataclasses import dataclass

from ..absint import (TOP, ClassRef, Const, DictV, Domain, ExtRef, FuncRef, ListOf, Obj, Tup)
from ..repo import ClassInfo, FuncInfo, dotted, norm_src

NM = (1, 0, None)
PX = (0, 1, None)
S = (1, -1, None)  # nm / px : the loader "scale"
SINV = (-1, 1, None)
ONE = (0, 0, None)
DEG = (0, 0, "deg")
RAD = (0, 0, "rad")

NAMES = {NM: "nm", PX: "px", S: "nm/px", SINV: "px/nm", ONE: "1", DEG: "deg", RAD: "rad"}


def uname(u) -> str:
    if u in NAMES:
        return NAMES[u]
    a, b, t = u
    return f"nm^{a}*px^{b}" + (f"[{t}]" if t else "")


@dataclass(frozen=True)
class U:
    alts: frozenset = frozenset()
    poly: bool = False  # numeric literal / zeros: fits any unit additively, acts as 1 in products
    all_of: tuple = ()  # conjunction (from joins of different units)
    origin: str = ""
    maybe_none = True

    def __repr__(self):
        if self.all_of:
            return "U[all:" + " & ".join(map(repr, self.all_of)) + "]"
        if self.poly:
            return "U[lit]"
        if not self.alts:
            return "U[CONTRADICTION]"
        return "U[" + "|".join(sorted(uname(u) for u in self.alts)) + "]"

    def fits(self, required: frozenset) -> bool:
        if self.all_of:
            return all(c.fits(required) for c in self.all_of)
        if self.poly:
            return True
        return bool(self.alts & required)

    def describe(self) -> str:
        return repr(self)


def mk(*units) -> U:
    return U(frozenset(units))


LIT = U(frozenset({ONE}), poly=True)
COUNT = mk(PX, ONE)
U_NM, U_PX, U_S, U_ONE, U_DEG, U_RAD = mk(NM), mk(PX), mk(S), mk(ONE), mk(DEG), mk(RAD)
BAD = U(frozenset())


def _mul(a, b, sign=1):
    ta, tb = a[2], b[2]
    if ta and tb:
        tag = ta if sign == 1 else (None if ta == tb else ta)
    else:
        tag = ta or (tb if sign == 1 else tb)
    return (a[0] + sign * b[0], a[1] + sign * b[1], tag)


PRESERVE_FUNCS = {
    "numpy.asarray", "numpy.array", "numpy.atleast_1d", "numpy.atleast_2d", "numpy.atleast_3d", "numpy.round",
    "numpy.ceil", "numpy.floor", "numpy.abs", "numpy.absolute", "numpy.stack", "numpy.concatenate", "numpy.max",
    "numpy.min", "numpy.maximum", "numpy.minimum", "numpy.mean", "numpy.sum", "numpy.copy", "numpy.squeeze",
    "numpy.ravel", "numpy.clip", "numpy.rint", "numpy.around", "numpy.float32", "numpy.float64", "numpy.int32",
    "numpy.cumsum", "numpy.vstack", "numpy.hstack", "numpy.median", "numpy.trunc", "numpy.fix", "numpy.sort",
    "numpy.full", "numpy.full_like", "numpy.broadcast_to", "numpy.tile", "numpy.repeat", "numpy.negative",
    "builtins.float", "builtins.int", "builtins.round", "builtins.abs", "builtins.max", "builtins.min", "builtins.sum",
    "math.ceil", "math.floor", "math.fabs", "math.trunc", "numpy.asanyarray", "numpy.ascontiguousarray",
    "numpy.fmax", "numpy.fmin", "numpy.nan_to_num", "numpy.linalg.norm",
}
PRESERVE_METHODS = {
    "astype", "copy", "ravel", "reshape", "squeeze", "round", "max", "min", "mean", "sum", "tolist", "flatten",
    "clip", "item", "view", "transpose", "cumsum", "compute", "rechunk", "swapaxes", "get", "__abs__", "conj",
}
ZERO_FUNCS = {"numpy.zeros", "numpy.zeros_like", "numpy.empty", "numpy.empty_like"}
COUNT_FUNCS = {"builtins.len", "builtins.range", "numpy.arange", "numpy.indices", "numpy.argmax", "numpy.argmin",
               "numpy.unravel_index", "numpy.ndim", "numpy.shape", "numpy.prod", "numpy.size"}
ONE_FUNCS = {"numpy.ones", "numpy.ones_like", "numpy.eye", "numpy.exp", "numpy.cos", "numpy.sin", "numpy.tan",
             "numpy.sign", "numpy.isnan", "numpy.all", "numpy.any", "numpy.isfinite", "builtins.bool",
             "numpy.logical_and", "numpy.logical_or", "numpy.random.default_rng", "numpy.log"}
COUNT_ATTRS = {"shape", "ndim", "size", "output_shape", "input_shape", "chunks", "chunksize", "numblocks"}


class UnitsDomain(Domain):
    name = "U"

    def __init__(self, model, seeds=None):
        self.model = model
        self.events: list = []  # (kind, fn, node, message)
        self.extra_seeds = seeds or {}
        self._mol = None
        for ci in model.all_classes:
            if ci.name == "Molecules":
                self._mol = ci

    # ------------------------------------------------------------------ seeds
    def const(self, interp, value, node):
        if isinstance(value, bool) or value is None or isinstance(value, (str, bytes)) or value is Ellipsis:
            return Const(value)
        if isinstance(value, (int, float, complex)):
            return LIT
        return Const(value)

    def ann_unit(self, fn: FuncInfo, ann: ast.expr | None, pname: str):
        lname = pname.lower()
        if ann is not None:
            txt = norm_src(ann) if not (isinstance(ann, ast.Constant) and isinstance(ann.value, str)) else ann.value
        else:
            txt = ""
        names = set()
        try:
            tree = ast.parse(txt, mode="eval") if txt else None
        except SyntaxError:
            tree = None
        if tree is not None:
            for x in ast.walk(tree):
                if isinstance(x, ast.Name):
                    names.add(x.id)
                elif isinstance(x, ast.Attribute):
                    names.add(x.attr)
        if "scale" in lname and ("nm" in names or "float" in names or not names):
            return U_S
        if "AlignmentResult" in names:
            t = self.alignment_result_tuple()
            if "list" in names or "List" in names or "Sequence" in names or "Iterable" in names:
                return ListOf(t)
            return t
        if "nm" in names:
            return U_NM
        if "subpixel" in names:
            return U_PX
        if "pixel" in names:
            return COUNT
        if "degree" in names:
            return U_DEG
        if "Molecules" in names and self._mol is not None:
            return Obj(self._mol)
        return None

    def alignment_result_tuple(self):
        table = {"label": U_ONE, "shift": U_PX, "quat": U_ONE, "score": U_ONE}
        for ci in self.model.all_classes:
            if ci.name == "AlignmentResult":
                fields = [st.target.id for st in ci.node.body if isinstance(st, ast.AnnAssign) and isinstance(st.target, ast.Name)]
                return Tup([table.get(f, TOP) for f in fields])
        return TOP

    def seed_param(self, interp, fn: FuncInfo, arg: ast.arg):
        key = (fn.anchor, arg.arg)
        if key in self.extra_seeds:
            return self.extra_seeds[key]
        u = self.ann_unit(fn, arg.annotation, arg.arg)
        if u is not None:
            return u
        byname = self.param_name_seed(fn, arg.arg)
        if byname is not None:
            return byname
        ci = self.model.annotation_class(fn.module, arg.annotation)
        if ci is not None:
            return Obj(ci)
        return TOP

    def param_name_seed(self, fn: FuncInfo, name: str):
        rel = fn.module.relpath
        if name in ("scale", "original_scale", "img_scale", "tomogram_scale"):
            return U_S
        if rel.startswith(("acryo/alignment/", "acryo/backend/")):
            if name in ("max_shifts", "pos", "shift", "shifts"):
                return U_PX
        if name in ("binsize", "order", "ndim", "upsample", "n_set", "n", "nmole", "size"):
            return COUNT
        return None

    def seed_field(self, interp, obj: Obj, name: str, node):
        cname = obj.cls.name
        if name in ("scale", "_scale"):
            return U_S
        if name in ("molecules", "_molecules") and self._mol is not None and obj.cls is not self._mol:
            return Obj(self._mol)
        if self._mol is not None and obj.cls.is_subclass_of(self._mol):
            if name in ("pos", "_pos"):
                return U_NM
        if name in COUNT_ATTRS or name in ("_output_shape", "_order", "order"):
            return COUNT
        if cname == "LoaderGroup" and name == "_it":
            for ci in self.model.all_classes:
                if ci.name == "LoaderBase":
                    return ListOf(Tup([Const("<key>"), Obj(ci, tag="self")]))
        return TOP

    def attr(self, interp, val, name, node):
        if isinstance(val, U) or val is TOP:
            if name == "scale":
                return U_S
            if name in COUNT_ATTRS:
                return COUNT
            if name in ("real", "imag", "T") and isinstance(val, U):
                return val
            if val is TOP and name == "pos":
                txt = norm_src(node)
                if "mol" in txt:
                    return U_NM
        return NotImplemented

    # ------------------------------------------------------------------ algebra
    def _lift(self, v):
        """Bring structural values to a single U (homogeneous lifting)."""
        if isinstance(v, U):
            return v
        if isinstance(v, (Tup,)):
            if not v.items:
                return LIT
            out = None
            for it in v.items:
                u = self._lift(it)
                if u is None:
                    return None
                out = u if out is None else self.ujoin(out, u)
            return out
        if isinstance(v, ListOf):
            return self._lift(v.elem)
        if isinstance(v, Const) and isinstance(v.value, bool):
            return U_ONE
        return None

    def binop(self, interp, op, l, r, node):
        a, b = self._lift(l), self._lift(r)
        if a is None or b is None:
            return TOP
        if isinstance(op, (ast.Add, ast.Sub, ast.Mod, ast.FloorDiv)) and isinstance(op, (ast.Add, ast.Sub)):
            return self.uadd(interp, a, b, node)
        if isinstance(op, ast.Mult) or isinstance(op, ast.MatMult):
            return self.umul(a, b, 1)
        if isinstance(op, (ast.Div, ast.FloorDiv)):
            return self.umul(a, b, -1)
        if isinstance(op, ast.Mod):
            return a
        if isinstance(op, ast.Pow):
            if b.poly and isinstance(node, ast.BinOp) and isinstance(node.right, ast.Constant) and isinstance(node.right.value, int):
                k = node.right.value
                if a.poly:
                    return LIT
                return U(frozenset((u[0] * k, u[1] * k, u[2]) for u in a.alts))
            return TOP
        if isinstance(op, (ast.BitAnd, ast.BitOr, ast.BitXor)):
            return U_ONE
        return TOP

    def uadd(self, interp, a: U, b: U, node):
        if a.all_of or b.all_of:
            return U(all_of=tuple((a.all_of or (a,)) + (b.all_of or (b,))))
        if a.poly:
            return b
        if b.poly:
            return a
        common = a.alts & b.alts
        if not common:
            self.events.append(("clash", interp.cur_fn, node, f"adding {a!r} and {b!r}"))
            return BAD
        return U(common)

    def umul(self, a: U, b: U, sign: int):
        if a.all_of or b.all_of:
            parts = []
            for x in (a.all_of or (a,)):
                for y in (b.all_of or (b,)):
                    parts.append(self.umul(x, y, sign))
            return U(all_of=tuple(parts))
        if a.poly and b.poly:
            return LIT
        aa = frozenset({ONE}) if a.poly else a.alts
        bb = frozenset({ONE}) if b.poly else b.alts
        return U(frozenset(_mul(x, y, sign) for x in aa for y in bb))

    def unary(self, interp, op, val, node):
        u = self._lift(val)
        if u is None:
            return TOP
        if isinstance(op, ast.Not):
            return U_ONE
        return u

    def compare(self, interp, node, vals):
        return U_ONE

    def boolop(self, interp, node, vals):
        return self.join_many(interp, vals)

    def ujoin(self, a: U, b: U) -> U:
        if a == b:
            return a
        if a.poly:
            return b
        if b.poly:
            return a
        if not a.all_of and not b.all_of and a.alts == b.alts:
            return a
        parts = []
        for x in (a.all_of or (a,)) + (b.all_of or (b,)):
            if x not in parts:
                parts.append(x)
        return U(all_of=tuple(parts))

    def join(self, interp, a, b):
        if isinstance(a, U) and isinstance(b, U):
            return self.ujoin(a, b)
        if isinstance(a, Const) and a.value is None and isinstance(b, U):
            return b
        if isinstance(b, Const) and b.value is None and isinstance(a, U):
            return a
        la, lb = self._lift(a), self._lift(b)
        if la is not None and lb is not None:
            return self.ujoin(la, lb)
        return TOP

    def elem(self, interp, val, node):
        if isinstance(val, U):
            return val
        return TOP

    def unpack(self, interp, val, n, node):
        if isinstance(val, U):
            return [val] * n
        return NotImplemented

    def subscript(self, interp, val, index_node, index_val, node):
        if isinstance(val, U):
            return val
        return NotImplemented

    def store_sub(self, interp, container, index_node, index_val, value, node):
        c, v = self._lift(container), self._lift(value)
        if c is None or v is None:
            return TOP
        return self.ujoin(c, v)

    def truth(self, interp, val):
        if isinstance(val, Const):
            return bool(val.value) if not isinstance(val.value, str) or val.value != "<str>" else None
        return None

    def to_sequence(self, interp, name, v, node):
        if isinstance(v, U):
            return v
        return NotImplemented

    def seq_repeat(self, interp, seq, other, node):
        u = self._lift(seq)
        return u if u is not None else NotImplemented

    # ------------------------------------------------------------------ calls
    def call_external(self, interp, name, recv, args, kwargs, node):
        if name is None:
            return TOP
        if name.startswith("value.") or name.startswith("builtins.container.") or name.startswith("builtins.const."):
            meth = name.rsplit(".", 1)[1]
            u = self._lift(recv) if recv is not None else None
            if meth in PRESERVE_METHODS and u is not None:
                return u
            if meth in ("count", "index", "argmax", "argmin", "nonzero", "__len__"):
                return COUNT
            if meth in ("dot",) and u is not None and args:
                b = self._lift(args[0])
                return self.umul(u, b, 1) if b is not None else TOP
            if meth in ("apply",):
                # Rotation.apply(v): rotation preserves units of v
                b = self._lift(args[0]) if args else None
                return b if b is not None else TOP
            return TOP
        name = _canon(name)
        if name in PRESERVE_FUNCS:
            if not args:
                return TOP
            u = self._lift(args[0])
            if u is None:
                return TOP
            if name in ("numpy.maximum", "numpy.minimum", "builtins.max", "builtins.min", "numpy.fmax", "numpy.fmin", "numpy.clip") and len(args) > 1:
                out = u
                for a in args[1:]:
                    b = self._lift(a)
                    if b is None:
                        return TOP
                    out = self.uadd(interp, out, b, node)
                return out
            if name in ("numpy.full",):
                b = self._lift(args[1]) if len(args) > 1 else None
                return b if b is not None else TOP
            return u
        if name in ZERO_FUNCS:
            return LIT
        if name in COUNT_FUNCS:
            return COUNT
        if name in ONE_FUNCS:
            return U_ONE
        if name == "numpy.sqrt" and args:
            u = self._lift(args[0])
            if u is None or u.all_of:
                return TOP
            if u.poly:
                return LIT
            if all(x[0] % 2 == 0 and x[1] % 2 == 0 for x in u.alts):
                return U(frozenset((x[0] // 2, x[1] // 2, x[2]) for x in u.alts))
            return TOP
        if name in ("numpy.deg2rad", "numpy.radians", "math.radians"):
            return U_RAD
        if name in ("numpy.rad2deg", "numpy.degrees", "math.degrees"):
            return U_DEG
        if name in ("numpy.where",) and len(args) == 3:
            a, b = self._lift(args[1]), self._lift(args[2])
            if a is None or b is None:
                return TOP
            return self.ujoin(a, b)
        if name in ("numpy.dot", "numpy.matmul", "numpy.multiply", "numpy.cross") and len(args) >= 2:
            a, b = self._lift(args[0]), self._lift(args[1])
            return self.umul(a, b, 1) if a is not None and b is not None else TOP
        if name in ("numpy.divide", "numpy.true_divide") and len(args) >= 2:
            a, b = self._lift(args[0]), self._lift(args[1])
            return self.umul(a, b, -1) if a is not None and b is not None else TOP
        if name in ("numpy.add", "numpy.subtract") and len(args) >= 2:
            a, b = self._lift(args[0]), self._lift(args[1])
            return self.uadd(interp, a, b, node) if a is not None and b is not None else TOP
        if name in ("numpy.linspace",) and len(args) >= 2:
            a, b = self._lift(args[0]), self._lift(args[1])
            return self.uadd(interp, a, b, node) if a is not None and b is not None else TOP
        if name == "builtins.divmod" and len(args) == 2:
            a, b = self._lift(args[0]), self._lift(args[1])
            if a is None or b is None:
                return TOP
            return Tup([self.umul(a, b, -1), a])
        return TOP

    def type_test(self, interp, name, args, node):
        return TOP


def _canon(name: str) -> str:
    if name.startswith("numpy.") or name.startswith("builtins.") or name.startswith("math."):
        return name
    return name
