"""Sign-representative evaluation.

A function that touches a numeric parameter only through comparisons with 0 (and sign-preserving arithmetic) behaves the same for every value of one sign.
Evaluating it abstractly with the parameter bound to "some negative / zero / positive number" and every other input opaque therefore decides which external
calls are made on which sign - independently of how the branches are spelled (if/elif, conditional expression, function objects chosen first and called later,
helpers taking the operations as arguments).  Values:

    SV(sign, tag)      sign in {-1, 0, +1, None (unknown)}, tag a provenance string ("radius", "call:scipy.ndimage.binary_erosion", ...)

The domain records ``impure`` when a sign-tracked value is compared with a non-zero constant or with another tracked value: then one representative per sign is
not enough and the caller must report *undecided*.
"""
from __future__ import annotations

import ast
from dataclasses import dataclass

from ..absint import TOP, Const, Domain, ExtRef, FuncRef
from ..repo import norm_src


@dataclass(frozen=True)
class SV:
    sign: int | None
    tag: str = ""
    maybe_none = False

    def __repr__(self):
        s = {None: "?", -1: "-", 0: "0", 1: "+"}[self.sign]
        return f"SV[{s}{self.tag}]"


def _sv(v):
    if isinstance(v, SV):
        return v
    if isinstance(v, Const) and isinstance(v.value, (int, float)) and not isinstance(v.value, bool):
        return SV((v.value > 0) - (v.value < 0), repr(v.value))
    return None


def tag_of(v) -> str:
    if isinstance(v, SV):
        return v.tag
    if isinstance(v, Const):
        return repr(v.value)
    return "?"


class SignDomain(Domain):
    name = "signs"

    def __init__(self, positive=("scale",), summaries=None):
        self.positive = set(positive)
        self.impure: list[str] = []
        self.summaries = summaries or {}  # repo function name -> tag builder(args tags) ; returns SV(None, tag)

    def seed_param(self, interp, fn, arg):
        return SV(1 if arg.arg in self.positive else None, arg.arg)

    def seed_field(self, interp, obj, name, node):
        return SV(None, "self." + name)

    def binop(self, interp, op, l, r, node):
        a, b = _sv(l), _sv(r)
        if a is None or b is None:
            return TOP
        tag = f"({a.tag}{type(op).__name__}{b.tag})"
        if isinstance(op, (ast.Mult, ast.Div, ast.FloorDiv)):
            if a.sign is None or b.sign is None:
                return SV(0 if (a.sign == 0 and isinstance(op, ast.Mult)) or (b.sign == 0 and isinstance(op, ast.Mult)) else None, tag)
            if isinstance(op, ast.FloorDiv):
                return SV(None if a.sign * b.sign != 0 else 0, tag)
            return SV(a.sign * b.sign, tag)
        if isinstance(op, ast.Add):
            if a.sign is not None and (a.sign == b.sign or b.sign == 0):
                return SV(a.sign, tag)
            if a.sign == 0 and b.sign is not None:
                return SV(b.sign, tag)
            return SV(None, tag)
        if isinstance(op, ast.Sub):
            if a.sign is not None and b.sign is not None and (a.sign == -b.sign or b.sign == 0) and not (a.sign == 0 and b.sign == 0):
                return SV(a.sign if a.sign != 0 else -b.sign, tag)
            return SV(None, tag)
        return SV(None, tag)

    def unary(self, interp, op, val, node):
        a = _sv(val)
        if a is None:
            return TOP
        if isinstance(op, ast.USub):
            return SV(-a.sign if a.sign is not None else None, f"(-{a.tag})")
        if isinstance(op, ast.UAdd):
            return a
        return TOP

    def compare(self, interp, node, vals):
        if len(vals) != 2 or len(node.ops) != 1:
            return TOP
        a, b = _sv(vals[0]), _sv(vals[1])
        if a is None or b is None:
            return TOP
        op = node.ops[0]
        if isinstance(vals[0], Const) and isinstance(vals[1], Const):
            try:
                return Const({ast.Lt: a_ < b_, ast.LtE: a_ <= b_, ast.Gt: a_ > b_, ast.GtE: a_ >= b_, ast.Eq: a_ == b_, ast.NotEq: a_ != b_}[type(op)]) \
                    if (a_ := vals[0].value) is not None and (b_ := vals[1].value) is not None else TOP
            except Exception:
                return TOP
        # tracked value against the constant 0
        for x, y, flip in ((a, b, False), (b, a, True)):
            if isinstance(vals[1 if not flip else 0], Const) and y.sign == 0 and not isinstance(vals[0 if not flip else 1], Const):
                if x.sign is None:
                    return TOP
                s = x.sign if not flip else -x.sign  # compare s ? 0
                table = {ast.Lt: s < 0, ast.LtE: s <= 0, ast.Gt: s > 0, ast.GtE: s >= 0, ast.Eq: s == 0, ast.NotEq: s != 0}
                if type(op) in table:
                    return Const(table[type(op)])
                return TOP
        # a tracked (sign-known, non-constant) value compared with something else: one representative per sign is not enough
        for x, v in ((a, vals[0]), (b, vals[1])):
            if not isinstance(v, Const) and x.sign is not None and x.tag not in self.positive:
                self.impure.append(norm_src(node))
        return TOP

    def call_external(self, interp, name, recv, args, kwargs, node):
        last = (name or "").rsplit(".", 1)[-1]
        a0 = _sv(args[0]) if args else None
        if last in ("abs", "fabs") and a0 is not None:
            return SV(None if a0.sign is None else abs(a0.sign), f"abs({a0.tag})")
        if last in ("float", "asarray", "float32", "float64") and a0 is not None:
            return a0
        if last in ("int", "ceil", "floor", "round", "rint") and a0 is not None:
            keep = a0.sign == 0 or (a0.sign == 1 and last == "ceil") or (a0.sign == -1 and last == "floor")
            return SV(a0.sign if keep else None, f"{last}({a0.tag})")
        return SV(None, f"call:{name}@{getattr(node, 'lineno', 0)}")

    def call_repo(self, interp, funcs, bound, args, kwargs, node):
        names = {f.name for f in funcs}
        for nm, build in self.summaries.items():
            if names == {nm}:
                return SV(None, build([tag_of(a) for a in args], {k: tag_of(v) for k, v in kwargs.items()}))
        return NotImplemented

    def attr(self, interp, val, name, node):
        if isinstance(val, SV):
            return SV(None, f"{val.tag}.{name}")
        return NotImplemented

    def subscript(self, interp, val, index_node, index_val, node):
        if isinstance(val, SV):
            return SV(None, f"{val.tag}[{norm_src(index_node)}]")
        return NotImplemented

    def truth(self, interp, val):
        if isinstance(val, SV):
            if val.sign is None:
                return None
            return val.sign != 0
        return super().truth(interp, val)

    def join(self, interp, a, b):
        if isinstance(a, SV) and isinstance(b, SV):
            if a == b:
                return a
            return SV(a.sign if a.sign == b.sign else None, a.tag if a.tag == b.tag else f"join({a.tag}|{b.tag})")
        return super().join(interp, a, b)


def external_calls_by_sign(model, fn, param, signs=(-1, 1), positive=("scale",), summaries=None, depth=3, want=lambda name: True):
    """For each sign: the list of (external dotted name, args, kwargs) called when ``param`` has that sign, the values returned, and the impurity notes."""
    from ..absint import Interp
    out = {}
    for s in signs:
        dom = SignDomain(positive=positive, summaries=summaries)
        it = Interp(model, dom, depth=depth)
        calls, rets = [], []

        def on_call(interp, f, node, callee, args, kwargs, env):
            if isinstance(callee, ExtRef) and callee.name and want(callee.name):
                calls.append((callee.name, list(args), dict(kwargs), node))

        def on_return(interp, f, node, value, env=None):
            if f is fn:
                rets.append(value)

        it.on_call.append(on_call)
        it.on_return.append(on_return)
        args = {p: dom.seed_param(it, fn, a) for p, a in zip(fn.param_names(), fn.params())}
        args[param] = SV(s, param)
        try:
            it.run(fn, args=args)
        except Exception as e:  # pragma: no cover
            out[s] = {"error": repr(e)}
            continue
        out[s] = {"calls": calls, "returns": rets, "impure": list(dom.impure)}
    return out
