"""H - homogeneity degree / offset sensitivity / Cauchy-Schwarz form (DESIGN 4.5).

Image- and scalar-valued expressions are evaluated to polynomials with rational exponents
over two kinds of atoms:

  Lin(src, ops)          a *linear image* of input ``src`` ('a', 'b' or a named constant image), the tuple ``ops``
                         records the linear operations applied (mask product, fft, real part, centring, phase ...)
  ('red', r, key, poly)  reducer ``r`` (sum / mean / sum_labels[labels,index] / window sum ...) applied to an image polynomial

so that ``B(a,b) / sqrt(B(a,a) B(b,b))`` is recognisable as a single monomial
red(P_ab)^1 red(P_aa)^-1/2 red(P_bb)^-1/2 with P_aa, P_bb obtained from P_ab by substitution.
"""
from __future__ import annotations

import ast
from dataclasses import dataclass
from fractions import Fraction

from ..absint import TOP, Const, Domain, ExtRef, FuncRef, ListOf, Obj, Tup
from ..repo import FuncInfo, norm_src


@dataclass(frozen=True, order=True)
class Lin:
    src: str
    ops: tuple = ()

    def __repr__(self):
        return self.src + "".join("." + (o if isinstance(o, str) else "_".join(map(str, o))) for o in self.ops)


def akey(a):
    return repr(a)


class HP:
    """Polynomial: dict monomial -> Fraction ; monomial = tuple of (atom, Fraction power) sorted by repr."""

    __slots__ = ("t", "image")
    maybe_none = False

    def __init__(self, terms=None, image=False):
        self.t = {m: c for m, c in (terms or {}).items() if c != 0}
        self.image = image

    @staticmethod
    def atom(a, image=False):
        return HP({((a, Fraction(1)),): Fraction(1)}, image)

    @staticmethod
    def const(c):
        return HP({(): Fraction(c)}, False)

    def __add__(self, o):
        d = dict(self.t)
        for m, c in o.t.items():
            d[m] = d.get(m, 0) + c
        return HP(d, self.image or o.image)

    def __neg__(self):
        return HP({m: -c for m, c in self.t.items()}, self.image)

    def __mul__(self, o):
        d = {}
        for m1, c1 in self.t.items():
            for m2, c2 in o.t.items():
                mm = {}
                for a, p in m1 + m2:
                    mm[a] = mm.get(a, 0) + p
                m = tuple(sorted(((a, p) for a, p in mm.items() if p != 0), key=lambda x: akey(x[0])))
                d[m] = d.get(m, 0) + c1 * c2
        return HP(d, self.image or o.image)

    def power(self, k: Fraction):
        if len(self.t) == 1:
            (m, c), = self.t.items()
            if k.denominator == 1 or c == 1:
                return HP({tuple((a, p * k) for a, p in m): (c ** int(k) if k.denominator == 1 else Fraction(1))}, self.image)
            if c > 0:
                # positive constant factor under a root: irrelevant for degree/CS analysis, keep symbolically
                return HP({tuple((a, p * k) for a, p in m) + ((("const", f"{c}^{k}"), Fraction(1)),): Fraction(1)}, self.image)
        if k.denominator == 1 and 0 <= k <= 4:
            out = HP.const(1)
            for _ in range(int(k)):
                out = out * self
            out.image = self.image
            return out
        return None

    def key(self):
        return tuple(sorted((tuple((akey(a), str(p)) for a, p in m), str(c)) for m, c in self.t.items()))

    def __eq__(self, o):
        return isinstance(o, HP) and self.t == o.t

    def __hash__(self):
        return hash(self.key())

    def is_single_lin(self):
        if len(self.t) == 1:
            (m, c), = self.t.items()
            if c == 1 and len(m) == 1 and isinstance(m[0][0], Lin) and m[0][1] == 1:
                return m[0][0]
        return None

    def __repr__(self):
        if not self.t:
            return "0"
        parts = []
        for m, c in self.t.items():
            mon = "*".join((repr(a) if isinstance(a, Lin) else fmt_satom(a)) + (f"^{p}" if p != 1 else "") for a, p in m)
            parts.append((f"{c}*" if c != 1 or not mon else "") + (mon or "1"))
        return ("IMG[" if self.image else "SC[") + " + ".join(parts) + "]"


def fmt_satom(a):
    if isinstance(a, tuple) and a and a[0] == "red":
        return f"{a[1]}<{a[3]!r}>"
    return str(a[1]) if isinstance(a, tuple) and len(a) > 1 else str(a)


def atom_degree(a, inputs=("a", "b")):
    if isinstance(a, Lin):
        return tuple(Fraction(1 if a.src == s else 0) for s in inputs)
    if isinstance(a, tuple) and a[0] == "red":
        return poly_degree(a[3], inputs)
    if isinstance(a, tuple) and a[0] == "opaque":
        return a[2]
    return tuple(Fraction(0) for _ in inputs)


def poly_degree(p: HP, inputs=("a", "b")):
    """Common degree of all monomials, or None if inhomogeneous."""
    degs = set()
    for m in p.t:
        d = [Fraction(0)] * len(inputs)
        for a, pw in m:
            ad = atom_degree(a, inputs)
            if ad is None:
                return None
            for i in range(len(inputs)):
                d[i] += ad[i] * pw
        degs.add(tuple(d))
    if not degs:
        return tuple(Fraction(0) for _ in inputs)
    if len(degs) == 1:
        return degs.pop()
    return None


def subst_src(p: HP, old: str, new: str) -> HP:
    def sa(a):
        if isinstance(a, Lin):
            return Lin(new, a.ops) if a.src == old else a
        if isinstance(a, tuple) and a[0] == "red":
            q = subst_src(a[3], old, new)
            return ("red", a[1], q.key(), q)
        return a
    out = HP({}, p.image)
    for m, c in p.t.items():
        term = HP({(): c}, p.image)
        for a, pw in m:
            base = HP({((sa(a), pw),): Fraction(1)}, p.image)
            term = term * base
        out = out + term
    out.image = p.image
    return out


def offset_free(p: HP, src: str) -> bool:
    """Every occurrence of input ``src`` is centred (x - mean(x)) before anything non-linear."""
    def ok_atom(a):
        if isinstance(a, Lin):
            return a.src != src or "center" in a.ops
        if isinstance(a, tuple) and a[0] == "red":
            return offset_free(a[3], src)
        return True
    return all(ok_atom(a) for m in p.t for a, _ in m)


TAILS = ("real", "imag")


def split_tail(a: Lin):
    if a.ops and a.ops[-1] in TAILS:
        return Lin(a.src, a.ops[:-1]), a.ops[-1]
    return a, None


def rebase(p: HP, old_src: str, new_base: Lin) -> HP:
    """Replace every linear image of input ``old_src`` by ``new_base`` keeping its trailing real/imag selector."""
    def sa(a):
        if isinstance(a, Lin) and a.src == old_src:
            _, tail = split_tail(a)
            return Lin(new_base.src, new_base.ops + ((tail,) if tail else ()))
        return a
    out = HP({}, p.image)
    for m, c in p.t.items():
        term = HP({(): c}, p.image)
        for a, pw in m:
            term = term * HP({((sa(a), pw),): Fraction(1)}, p.image)
        out = out + term
    out.image = p.image
    return out


ASYMMETRIC_OK = ("mul", "phase")  # a unit-modulus phase ramp applied to one operand only (shift scan of the FSC landscape)


def strip_phase(ops: tuple) -> tuple:
    return tuple(o for o in ops if not (isinstance(o, tuple) and o and o[0] == "mul" and "phase" in str(o[1])))


def cs_form(p: HP, inputs=("a", "b"), scalar_ok=False):
    """Recognise  red_r(B(X,Y)) * red_r(B(X,X))^-1/2 * red_r(B(Y,Y))^-1/2  where X, Y are linear images of the two inputs.
    Returns (ok, explanation, info) ; info = {'X': Lin, 'Y': Lin, 'reducer': str}."""
    if len(p.t) != 1:
        return False, f"score is not a single quotient: {p!r}"[:300], {}
    (m, c), = p.t.items()
    reds = [(a, pw) for a, pw in m if isinstance(a, tuple) and a[0] == "red"]
    others = [(a, pw) for a, pw in m if not (isinstance(a, tuple) and a[0] in ("red", "const"))]
    if others and scalar_ok and all(isinstance(a, tuple) and a[0] == "opaque" for a, pw in others):
        # a factor that does not depend on the images (e.g. 1 / number-of-shells when the mean over shells is spelled as sum / count): the caller validates it
        others = []
    if others:
        return False, f"unexpected factors {others!r}"[:300], {}
    num = [a for a, pw in reds if pw == 1]
    den = [a for a, pw in reds if pw == Fraction(-1, 2)]
    if len(num) != 1 or len(den) != 2 or len(reds) != 3:
        return False, f"not of the form N / sqrt(D0 * D1): exponents {[(fmt_satom(a), str(pw)) for a, pw in reds]}"[:400], {}
    N = num[0]
    a_, b_ = inputs
    if any(d[1] != N[1] for d in den):
        return False, f"numerator and denominator use different reducers / shells: {N[1]} vs {[d[1] for d in den]}", {}
    P = N[3]
    X = Y = None
    for mon in P.t:
        lins = [x for x, pw in mon if isinstance(x, Lin) for _ in range(int(pw))]
        srcs = sorted(x.src for x in lins)
        if srcs != [a_, b_]:
            return False, f"numerator {P!r} is not bilinear in the two inputs"[:300], {}
        xa = [x for x in lins if x.src == a_][0]
        xb = [x for x in lins if x.src == b_][0]
        (ba, ta), (bb, tb) = split_tail(xa), split_tail(xb)
        if ta != tb:
            return False, f"numerator pairs different components ({ta} with {tb}) in {P!r}"[:300], {}
        if X is None:
            X, Y = ba, bb
        elif X != ba or Y != bb:
            return False, f"numerator {P!r} mixes differently processed versions of an input"[:300], {}
    Paa = rebase(P, b_, X)
    Pbb = rebase(P, a_, Y)
    got = {d[3].key() for d in den}
    if got != {Paa.key(), Pbb.key()}:
        return False, (f"denominator terms {[repr(d[3]) for d in den]} are not B(X,X) = {Paa!r} and B(Y,Y) = {Pbb!r} of the numerator's "
                       f"bilinear form {P!r}")[:700], {}
    for mon, cf in Paa.t.items():
        if cf <= 0 or not all(pw == 2 for _, pw in mon):
            return False, f"B(X,X) = {Paa!r} is not a sum of squares", {}
    return True, f"B = {N[1]}<{P!r}>", {"X": X, "Y": Y, "reducer": N[1]}


def symmetric_preprocessing(info) -> tuple[bool, str]:
    if not info:
        return False, "no CS form"
    xo, yo = strip_phase(info["X"].ops), strip_phase(info["Y"].ops)
    if xo == yo:
        return True, f"both operands: {xo}"
    return False, f"operands are pre-processed differently: first {info['X']!r}, second {info['Y']!r}"


class HomogDomain(Domain):
    name = "H"

    def __init__(self, model, inputs=("a", "b")):
        self.model = model
        self.inputs = inputs
        self.events = []

    # ------------------------------------------------------------------ seeds
    def const(self, interp, value, node):
        if isinstance(value, bool) or value is None or isinstance(value, (str, bytes)) or value is Ellipsis:
            return Const(value)
        if isinstance(value, (int, float)):
            return HP.const(Fraction(value).limit_denominator(10**6))
        if isinstance(value, complex):
            return HP.atom(("const", "cplx"))
        return Const(value)

    def seed_param(self, interp, fn, arg):
        if arg.arg in ("backend", "xp", "_backend"):
            return ExtRef("numpy")
        return TOP

    def seed_field(self, interp, obj, name, node):
        return TOP

    def lin_apply(self, v, op):
        """Apply a linear image operation to an image polynomial."""
        if not isinstance(v, HP):
            return TOP
        out = HP({}, True)
        for m, c in v.t.items():
            lins = [(a, p) for a, p in m if isinstance(a, Lin)]
            if len(lins) != 1 or lins[0][1] != 1:
                # linear op on a non-linear image term: keep as opaque image with the same degree
                d = poly_degree(HP({m: c}), self.inputs)
                atom = ("opaque", f"{op}({HP({m: c})!r})"[:80], d)
                out = out + HP({((atom, Fraction(1)),): Fraction(1)}, True)
                continue
            a = lins[0][0]
            rest = tuple((x, p) for x, p in m if x is not a)
            newa = Lin(a.src, a.ops + (op,))
            mm = tuple(sorted(rest + ((newa, Fraction(1)),), key=lambda x: akey(x[0])))
            out = out + HP({mm: c}, True)
        out.image = True
        return out

    def attr(self, interp, val, name, node):
        if isinstance(val, HP) and val.image:
            if name in ("real", "imag"):
                return self.lin_apply(val, name)
            if name == "T":
                return val
            if name in ("shape", "ndim", "dtype", "size"):
                return HP.atom(("const", name))
        if isinstance(val, HP) and name in ("real",):
            return val
        return NotImplemented

    # ------------------------------------------------------------------ algebra
    def as_hp(self, v):
        if isinstance(v, HP):
            return v
        if isinstance(v, Const) and isinstance(v.value, (int, float)) and not isinstance(v.value, bool):
            return HP.const(Fraction(v.value).limit_denominator(10**6))
        return None

    def binop(self, interp, op, l, r, node):
        a, b = self.as_hp(l), self.as_hp(r)
        if a is None or b is None:
            return TOP
        if isinstance(op, ast.Add):
            return self.add(interp, a, b, node)
        if isinstance(op, ast.Sub):
            # centring: X - mean(X)
            la = a.is_single_lin()
            if la is not None and not b.image and len(b.t) == 1:
                (m, c), = b.t.items()
                if c == 1 and len(m) == 1 and isinstance(m[0][0], tuple) and m[0][0][0] == "red" and m[0][0][1] == "mean" and m[0][1] == 1:
                    inner = m[0][0][3].is_single_lin()
                    if inner == la:
                        return HP.atom(Lin(la.src, la.ops + ("center",)), True)
            return self.add(interp, a, -b, node)
        if isinstance(op, (ast.Mult, ast.MatMult)):
            # product with a constant image (mask, wedge, phase ramp): a linear operation on the other factor
            for x, y in ((a, b), (b, a)):
                lx = x.is_single_lin()
                if lx is not None and lx.src not in self.inputs and y.image:
                    return self.lin_apply(y, ("mul", repr(lx)))
            return a * b
        if isinstance(op, ast.Div):
            inv = b.power(Fraction(-1))
            if inv is None:
                d = poly_degree(b, self.inputs)
                if d is None:
                    return TOP
                inv = HP.atom(("opaque", f"1/({b!r})"[:80], tuple(-x for x in d)), b.image)
            return a * inv
        if isinstance(op, ast.Pow):
            if len(b.t) == 1 and () in b.t:
                k = b.t[()]
                out = a.power(k)
                if out is not None:
                    return out
                d = poly_degree(a, self.inputs)
                if d is None:
                    return TOP
                return HP.atom(("opaque", f"({a!r})^{k}"[:80], tuple(x * k for x in d)), a.image)
            return TOP
        return TOP

    def add(self, interp, a: HP, b: HP, node):
        da, db = poly_degree(a, self.inputs), poly_degree(b, self.inputs)
        if da is not None and db is not None and da != db and a.t and b.t:
            zero = tuple(Fraction(0) for _ in self.inputs)
            self.events.append(("degree", interp.cur_fn, node, f"adding terms of different homogeneity degree {tuple(map(str, da))} and {tuple(map(str, db))}: "
                                                               f"{a!r} and {b!r}"[:400]))
        return a + b

    def unary(self, interp, op, val, node):
        if isinstance(val, HP):
            if isinstance(op, ast.USub):
                return -val
            if isinstance(op, ast.UAdd):
                return val
            return val
        return TOP

    def compare(self, interp, node, vals):
        # a quantity that scales with the image (degree != 0) compared with a non-zero absolute number: the outcome changes under positive rescaling of the
        # input (`var > 0` is scale-free, `var > eps` is not)
        try:
            if len(vals) == 2 and len(node.ops) == 1 and isinstance(node.ops[0], (ast.Lt, ast.LtE, ast.Gt, ast.GtE)):
                for v, o, on in ((vals[0], vals[1], node.comparators[0]), (vals[1], vals[0], node.left)):
                    if isinstance(v, HP):
                        d = poly_degree(v)
                        absolute = (isinstance(o, Const) and isinstance(o.value, (int, float)) and not isinstance(o.value, bool) and o.value != 0) or \
                            any(t in norm_src(on) for t in ("finfo", ".eps", "EPS", "1e-"))
                        if d is not None and any(x != 0 for x in d) and absolute:
                            self.events.append(("degree", interp.cur_fn, node, f"`{norm_src(node)[:60]}` compares a quantity of homogeneity degree "
                                                f"{tuple(map(str, d))} with an absolute threshold: the result depends on the intensity scale of the input"))
        except Exception:
            pass
        for v in vals:
            if isinstance(v, HP) and v.image:
                return ("mask", v)
        return TOP

    def join(self, interp, a, b):
        if isinstance(a, HP) and isinstance(b, HP):
            if a == b:
                return a
            # zeros joined with a value (result buffers): keep the value
            if not a.t:
                return b
            if not b.t:
                return a
            return TOP
        return TOP

    def subscript(self, interp, val, index_node, index_val, node):
        if isinstance(val, HP):
            if val.image:
                # reversal / slicing / masking keep the (linear) image; an integer index picks one element (still linear)
                return val
            return val
        return NotImplemented

    def store_sub(self, interp, container, index_node, index_val, value, node):
        if isinstance(container, HP) and isinstance(value, HP):
            if not container.t:
                # a zero buffer filled (possibly under a mask) with the value: image-valued iff the value is
                out = HP(dict(value.t), value.image)
                return out
            return self.join(interp, container, value)
        if isinstance(value, HP) and container is TOP:
            return value
        return container

    def elem(self, interp, val, node):
        if isinstance(val, HP):
            return val
        return TOP

    def truth(self, interp, val):
        if isinstance(val, Const):
            if isinstance(val.value, str) and val.value.startswith("<"):
                return None
            return bool(val.value)
        return None

    # ------------------------------------------------------------------ calls
    LINEAR_FUNCS = {"fftn": "fftn", "ifftn": "ifftn", "rfftn": "rfftn", "irfftn": "irfftn", "fftshift": None, "ifftshift": None, "asarray": None,
                    "asnumpy": None, "array": None, "ascontiguousarray": None, "cumsum": "cumsum", "pad": "pad", "conj": "conj", "astype": None,
                    "copy": None, "float32": None, "nan_to_num": None, "stack": None}
    REDUCERS = {"sum", "mean"}

    def reduce(self, r, v: HP, extra_key=""):
        """Linear reducer applied to an image polynomial -> scalar polynomial."""
        out = HP({}, False)
        for m, c in v.t.items():
            img = tuple((a, p) for a, p in m if isinstance(a, Lin) or (isinstance(a, tuple) and a[0] == "opaque" and v.image))
            sc = tuple((a, p) for a, p in m if (a, p) not in img)
            ip = HP({tuple(sorted(img, key=lambda x: akey(x[0]))): Fraction(1)}, True)
            atom = ("red", r + extra_key, ip.key(), ip)
            mm = tuple(sorted(sc + ((atom, Fraction(1)),), key=lambda x: akey(x[0])))
            out = out + HP({mm: c}, False)
        # merge: red is linear, so red(P1) + red(P2) == red(P1 + P2) when scalar parts agree -> canonicalise single-scalar-part case
        if len(out.t) > 1:
            groups = {}
            for m, c in out.t.items():
                sc = tuple((a, p) for a, p in m if not (isinstance(a, tuple) and a[0] == "red" and a[1] == r + extra_key))
                rd = [(a, p) for a, p in m if isinstance(a, tuple) and a[0] == "red" and a[1] == r + extra_key]
                if len(rd) != 1 or rd[0][1] != 1:
                    return out
                groups.setdefault(sc, HP({}, True))
                groups[sc] = groups[sc] + HP({k: v_ * c for k, v_ in rd[0][0][3].t.items()}, True)
            merged = HP({}, False)
            for sc, ip in groups.items():
                ip.image = True
                atom = ("red", r + extra_key, ip.key(), ip)
                mm = tuple(sorted(sc + ((atom, Fraction(1)),), key=lambda x: akey(x[0])))
                merged = merged + HP({mm: Fraction(1)}, False)
            return merged
        return out

    def call_external(self, interp, name, recv, args, kwargs, node):
        if name is None:
            return TOP
        last = name.rsplit(".", 1)[-1]
        if name.startswith("value."):
            if isinstance(recv, HP):
                if last in ("mean", "sum") and recv.image:
                    return self.reduce(last, recv)
                if last in ("mean", "sum", "max", "min") and not recv.image:
                    # reducing a vector of scalars (e.g. per-shell values): keep structure with an outer marker
                    return HP({m + (((("outer", last), Fraction(0)),) if False else ()): c for m, c in recv.t.items()}, False)
                if last in ("std", "var") and recv.image:
                    return self._std(recv, last)
                if last in ("astype", "copy", "ravel", "squeeze", "conj"):
                    return recv if last != "conj" else self.lin_apply(recv, "conj")
                if last == "max":
                    return HP.atom(("const", "max"))
            return TOP
        a0 = args[0] if args else None
        if isinstance(a0, HP):
            if last in self.LINEAR_FUNCS and a0.image:
                op = self.LINEAR_FUNCS[last]
                return a0 if op is None else self.lin_apply(a0, op)
            if last in ("sum", "mean") and a0.image:
                return self.reduce(last, a0)
            if last in ("std", "var") and a0.image:
                return self._std(a0, last)
            if last == "sum_labels" and a0.image:
                lab = kwargs.get("labels", args[1] if len(args) > 1 else None)
                idx = kwargs.get("index", args[2] if len(args) > 2 else None)
                lk = norm_src(node.keywords[0].value) if False else ""
                labtxt = ""
                for k in node.keywords:
                    if k.arg in ("labels", "index"):
                        labtxt += f"{k.arg}={norm_src(k.value)};"
                return self.reduce("sum_labels", a0, "[" + labtxt + "]")
            if last == "sqrt":
                out = a0.power(Fraction(1, 2))
                if out is not None:
                    return out
                d = poly_degree(a0, self.inputs)
                if d is None:
                    return TOP
                return HP.atom(("opaque", f"sqrt({a0!r})"[:80], tuple(x / 2 for x in d)), a0.image)
            if last in ("abs",):
                d = poly_degree(a0, self.inputs)
                return HP.atom(("opaque", f"abs({a0!r})"[:80], d), a0.image) if d is not None else TOP
            if last in ("float", "int", "asnumpy", "float32", "real"):
                return a0
            if last in ("zeros_like", "ones_like", "empty_like"):
                return HP({}, True)
            if last in ("prod",):
                return HP.atom(("const", "prod"))
            if last == "stack":
                return a0
        if last in ("zeros", "empty", "full"):
            return HP({}, True)
        if last in ("prod", "arange", "max", "min", "ceil", "indices", "meshgrid", "fftfreq") or name in ("builtins.int", "builtins.float", "builtins.len",
                                                                                                         "builtins.tuple", "builtins.range"):
            if isinstance(a0, HP) and not a0.image and last in ("int", "float"):
                return a0
            return HP.atom(("const", last))
        return TOP

    def _std(self, x, kind):
        """var(x) = mean(x*x) - mean(x)**2 (a centred second moment: a different bilinear form from the raw sum / mean); std = sqrt(var)."""
        try:
            m1 = self.reduce("mean", x)
            var = self.reduce("mean", x * x) + (-(m1 * m1))
        except Exception:
            return TOP
        if kind == "var":
            return var
        d = poly_degree(var, self.inputs)
        if d is None:
            return TOP
        return HP.atom(("opaque", f"sqrt({var!r})"[:80], tuple(z / 2 for z in d)), False)

    def call_repo(self, interp, funcs, bound, args, kwargs, node):
        names = {f.name for f in funcs}
        if names <= {"_window_sum_3d", "_window_sum_2d"} and args and isinstance(args[0], HP):
            return self.lin_apply(args[0], "winsum")
        if names == {"fftconvolve"} and len(args) >= 2 and isinstance(args[0], HP) and isinstance(args[1], HP):
            p = args[0] * args[1]
            p.image = True
            return p
        if names == {"_safe_sqrt"} and args and isinstance(args[0], HP):
            out = args[0].power(Fraction(1, 2))
            if out is not None:
                return out
            d = poly_degree(args[0], self.inputs)
            if d is None:
                return TOP
            return HP.atom(("opaque", f"sqrt({args[0]!r})"[:80], tuple(x / 2 for x in d)), True)
        if names & {"_get_missing_wedge_mask"}:
            q = args[0] if args else kwargs.get("quat")
            return HP.atom(Lin("mw", (("of", norm_src(node.args[0]) if node.args else "?"),)), True)
        if names & {"_get_radial_label", "_get_phases"}:
            if "_get_phases" in names:
                ph = lambda k: ListOf(HP.atom(Lin("phase" + k, ()), True))
                return Tup([ph("z"), ph("y"), ph("x")])
            return HP.atom(("const", "labels"))
        return NotImplemented
