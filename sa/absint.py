"""E2 - forward abstract evaluator over the repo's Python source.

One evaluator, parameterised by a *domain* object.  It interprets function bodies
abstractly (never runs them): path-splitting on ``if`` up to a cap, loop bodies evaluated
on "an element of the iterable" until stable, repo callees inlined on demand up to a
depth bound, external callees handed to the domain's transfer function.

Structural values understood by the engine itself (tuples, homogeneous lists, dicts with
constant keys, references to repo functions/classes/modules, instances of repo classes)
are defined here; scalars/arrays are domain values.
"""
from __future__ import annotations

import ast
from dataclasses import dataclass, field
from typing import Any, Callable

from .repo import ClassInfo, FuncInfo, Model, ModuleInfo, dotted, norm_src, _owner_class


# --------------------------------------------------------------------------- values
class _Top:
    def __repr__(self):
        return "TOP"


TOP = _Top()


@dataclass(frozen=True)
class Const:
    """A Python constant that the domain did not want to abstract (None, str, bool...)."""

    value: Any

    def __repr__(self):
        return f"Const({self.value!r})"


@dataclass
class Tup:
    items: list

    def __repr__(self):
        return "Tup(" + ", ".join(map(repr, self.items)) + ")"


@dataclass
class ListOf:
    elem: Any
    one_shot: bool = False  # generator-like

    def __repr__(self):
        return f"ListOf({self.elem!r})"


@dataclass
class DictV:
    items: dict

    def __repr__(self):
        return f"DictV({self.items!r})"


@dataclass
class FuncRef:
    funcs: list  # list[FuncInfo]
    bound: Any = None  # bound self value (Obj / domain value) or None
    closure: dict | None = None


@dataclass
class LambdaRef:
    node: ast.Lambda
    env: dict
    fn: FuncInfo


@dataclass
class ClassRef:
    cls: ClassInfo


@dataclass
class ModRef:
    mod: ModuleInfo


@dataclass
class ExtRef:
    """External (non-repo) callable or module, by dotted name."""

    name: str
    recv: Any = None  # receiver for bound external methods

    def __repr__(self):
        return f"Ext({self.name})"


@dataclass
class Obj:
    cls: ClassInfo
    fields: dict = field(default_factory=dict)
    tag: Any = None  # domain-specific annotation (e.g. "the loader under analysis")

    def __repr__(self):
        return f"Obj({self.cls.name}{'#' + str(self.tag) if self.tag else ''})"


@dataclass
class ZipStar:
    """zip(*rows) before it is unpacked: `a, b, c = zip(*rows)` binds a to the sequence of first components, ..."""
    elem: Any


class Returned(Exception):
    pass


_KEEP_NAMES = None


def _is_free_helper(f) -> bool:
    """A private function / method (leading underscore, not a dunder) that no property is anchored in."""
    global _KEEP_NAMES
    n = f.name
    if not n.startswith("_") or (n.startswith("__") and n.endswith("__")):
        return False
    if _KEEP_NAMES is None:
        try:
            import check as _chk
            _KEEP_NAMES = _chk.anchored_names()
        except Exception:
            _KEEP_NAMES = frozenset()
    return n not in _KEEP_NAMES


# --------------------------------------------------------------------------- domain base
class Domain:
    """Override what you need.  Returning ``NotImplemented`` falls through to the engine."""

    name = "base"

    def const(self, interp, value, node):
        return Const(value)

    def seed_param(self, interp, fn: FuncInfo, arg: ast.arg):
        return TOP

    def seed_field(self, interp, obj: Obj, name: str, node):
        return TOP

    def attr(self, interp, val, name: str, node):
        return NotImplemented

    def binop(self, interp, op: ast.operator, left, right, node):
        return TOP

    def unary(self, interp, op: ast.unaryop, val, node):
        return TOP

    def compare(self, interp, node: ast.Compare, vals: list):
        return TOP

    def boolop(self, interp, node: ast.BoolOp, vals: list):
        return self.join_many(interp, vals)

    def subscript(self, interp, val, index_node: ast.expr, index_val, node):
        return NotImplemented

    def store_sub(self, interp, container, index_node, index_val, value, node):
        """x[i] = v : new abstract value of x."""
        return self.join(interp, container, value)

    def call_external(self, interp, name: str | None, recv, args: list, kwargs: dict, node: ast.Call):
        return TOP

    def call_repo(self, interp, funcs: list, bound, args: list, kwargs: dict, node: ast.Call):
        """Return a summary value to short-circuit inlining, else NotImplemented."""
        return NotImplemented

    def construct(self, interp, cls: ClassInfo, args: list, kwargs: dict, node: ast.Call):
        return NotImplemented

    def elem(self, interp, val, node):
        """An element of iterating ``val`` (a domain value)."""
        return TOP

    def join(self, interp, a, b):
        return a if _same(a, b) else TOP

    def join_many(self, interp, vals):
        if not vals:
            return TOP
        out = vals[0]
        for v in vals[1:]:
            out = interp.join(out, v)
        return out

    def truth(self, interp, val):
        """True / False when the abstract value decides a branch, else None."""
        if isinstance(val, Const):
            try:
                return bool(val.value)
            except Exception:
                return None
        return None

    def assume(self, interp, env: dict, test: ast.expr, truth: bool):
        """Refine env under a branch condition; return None to prune the branch."""
        return env

    def top_call(self, interp, node):
        return TOP


def _same(a, b) -> bool:
    if a is b:
        return True
    try:
        return type(a) is type(b) and a == b
    except Exception:
        return False


# --------------------------------------------------------------------------- interpreter
@dataclass
class Frame:
    fn: FuncInfo
    env: dict
    self_val: Any = None


class Interp:
    MAX_STATES = 48
    LOOP_ROUNDS = 3

    def __init__(self, model: Model, domain: Domain, depth: int = 3, path_split: bool = True):
        self.model = model
        self.domain = domain
        self.depth = depth
        self.path_split = path_split
        self.stack: list[FuncInfo] = []
        self.on_call: list[Callable] = []  # (interp, fn, node, callee_desc, args, kwargs)
        self.on_return: list[Callable] = []  # (interp, fn, node, value)
        self.on_stmt: list[Callable] = []  # (interp, fn, stmt, env)
        self.on_raise: list[Callable] = []  # (interp, fn, stmt, env)
        self.events: list = []  # domains append diagnostics here
        self.undecided: list = []
        self.steps = 0
        self.funcs_evaluated: set[str] = set()
        self._module_cache: dict = {}
        self.cur_fn: FuncInfo | None = None
        self._yields: list[list] = []
        self._abstract_loops = 0

    # ---------------------------------------------------------------- entry
    def run(self, fn: FuncInfo, args: dict | None = None, self_val=None):
        """Evaluate ``fn`` with parameters seeded by the domain (or given in ``args``).
        Returns the join of returned values."""
        env = {}
        params = fn.params()
        a = fn.node.args
        for i, p in enumerate(params):
            if args is not None and p.arg in args:
                env[p.arg] = args[p.arg]
            elif i == 0 and fn.cls is not None and not fn.is_staticmethod and fn.parent is None:
                if self_val is not None:
                    env[p.arg] = self_val
                elif fn.is_classmethod:
                    env[p.arg] = ClassRef(fn.cls)
                else:
                    env[p.arg] = Obj(fn.cls, tag="self")
            else:
                env[p.arg] = self.domain.seed_param(self, fn, p)
        if a.vararg:
            env[a.vararg.arg] = (args or {}).get(a.vararg.arg, ListOf(TOP))
        if a.kwarg:
            env[a.kwarg.arg] = (args or {}).get(a.kwarg.arg, DictV({}))
        return self._run_body(fn, env)

    def _run_body(self, fn: FuncInfo, env: dict):
        self.stack.append(fn)
        prev = self.cur_fn
        self.cur_fn = fn
        self.funcs_evaluated.add(fn.qual)
        self._yields.append([])
        try:
            rets: list = []
            states = self.exec_block(fn.node.body, [env], rets, fn)
            if states:
                rets.append(Const(None))
            if fn.is_generator:
                ys = self._yields[-1]
                if not ys:
                    return ListOf(TOP, one_shot=True)
                acc = ys[0]
                for v in ys[1:]:
                    acc = self.join(acc, v)
                return ListOf(acc, one_shot=True)
            vals = [r for r in rets]
            if not vals:
                return TOP  # every path raises
            out = vals[0]
            for v in vals[1:]:
                out = self.join(out, v)
            return out
        finally:
            self._yields.pop()
            self.stack.pop()
            self.cur_fn = prev

    # ---------------------------------------------------------------- statements
    def exec_block(self, stmts, states: list[dict], rets: list, fn: FuncInfo) -> list[dict]:
        for st in stmts:
            if not states:
                break
            nxt: list[dict] = []
            for env in states:
                nxt.extend(self.exec_stmt(st, env, rets, fn))
            states = self._cap(nxt)
        return states

    def _cap(self, states: list[dict]) -> list[dict]:
        if len(states) <= self.MAX_STATES and self.path_split:
            return states
        if not states:
            return states
        if not self.path_split and len(states) == 1:
            return states
        out = states[0]
        for s in states[1:]:
            out = self.join_env(out, s)
        return [out]

    def join_env(self, a: dict, b: dict) -> dict:
        out = {}
        for k in set(a) | set(b):
            if k in a and k in b:
                out[k] = self.join(a[k], b[k])
            else:
                out[k] = a.get(k, b.get(k))  # defined on one path only: keep (path-insensitive use)
        # loop-control pseudo variables
        return out

    def exec_stmt(self, st: ast.stmt, env: dict, rets: list, fn: FuncInfo) -> list[dict]:
        self.steps += 1
        for cb in self.on_stmt:
            cb(self, fn, st, env)
        m = getattr(self, "st_" + type(st).__name__, None)
        if m is None:
            return [env]
        return m(st, env, rets, fn)

    def st_Expr(self, st, env, rets, fn):
        v = st.value
        if isinstance(v, (ast.Yield, ast.YieldFrom)):
            self.eval(v, env, fn)
            return [env]
        # local container mutation: x.append(v) / x.extend(v)
        if isinstance(v, ast.Call) and isinstance(v.func, ast.Attribute) and isinstance(v.func.value, ast.Name):
            name = v.func.value.id
            if name in env and isinstance(env[name], (Tup, ListOf)) and v.func.attr in ("append", "extend", "insert"):
                args = [self.eval(a, env, fn) for a in v.args]
                cur = env[name]
                if v.func.attr == "append" and args:
                    new = args[0]
                elif v.func.attr == "insert" and len(args) > 1:
                    new = args[1]
                elif args:
                    new = self.elem_of(args[0], v)
                else:
                    new = TOP
                env = dict(env)
                if isinstance(cur, Tup) and self._abstract_loops == 0 and v.func.attr == "append" and len(cur.items) < 16:
                    env[name] = Tup(list(cur.items) + [new])
                elif isinstance(cur, Tup) and self._abstract_loops == 0 and v.func.attr == "extend" and args and isinstance(args[0], Tup) and len(cur.items) < 16:
                    env[name] = Tup(list(cur.items) + list(args[0].items))
                elif isinstance(cur, Tup) and not cur.items:
                    env[name] = ListOf(new)
                else:
                    env[name] = ListOf(self.join(self.elem_of(cur, v), new))
                return [env]
        self.eval(v, env, fn)
        return [env]

    def st_Assign(self, st, env, rets, fn):
        val = self.eval(st.value, env, fn)
        env = dict(env)
        for t in st.targets:
            self.assign(t, val, env, fn, st)
        return [env]

    def st_AnnAssign(self, st, env, rets, fn):
        if st.value is None:
            return [env]
        val = self.eval(st.value, env, fn)
        env = dict(env)
        self.assign(st.target, val, env, fn, st)
        return [env]

    def st_AugAssign(self, st, env, rets, fn):
        load = _as_load(st.target)
        left = self.eval(load, env, fn)
        right = self.eval(st.value, env, fn)
        node = ast.BinOp(left=load, op=st.op, right=st.value)
        ast.copy_location(node, st)
        val = self.binop(st.op, left, right, node)
        env = dict(env)
        self.assign(st.target, val, env, fn, st)
        return [env]

    def assign(self, target, val, env, fn, st):
        if isinstance(target, ast.Name):
            env[target.id] = val
        elif isinstance(target, (ast.Tuple, ast.List)):
            n = len(target.elts)
            starred = [i for i, e in enumerate(target.elts) if isinstance(e, ast.Starred)]
            if isinstance(val, Tup) and not starred and len(val.items) == n:
                for e, v in zip(target.elts, val.items):
                    self.assign(e, v, env, fn, st)
            elif isinstance(val, Tup) and len(starred) == 1:
                k = starred[0]
                after = n - k - 1
                for e, v in zip(target.elts[:k], val.items[:k]):
                    self.assign(e, v, env, fn, st)
                mid = val.items[k : len(val.items) - after]
                self.assign(target.elts[k].value, Tup(list(mid)), env, fn, st)
                for e, v in zip(target.elts[k + 1 :], val.items[len(val.items) - after :]):
                    self.assign(e, v, env, fn, st)
            else:
                unp = self.unpack(val, n, st)
                for e, v in zip(target.elts, unp):
                    if isinstance(e, ast.Starred):
                        self.assign(e.value, ListOf(v), env, fn, st)
                    else:
                        self.assign(e, v, env, fn, st)
        elif isinstance(target, ast.Attribute):
            base = self.eval(target.value, env, fn)
            if isinstance(base, Obj):
                base.fields[target.attr] = val
            # stores through other values are effects; ignored by the value analysis
        elif isinstance(target, ast.Subscript):
            if isinstance(target.value, ast.Name) and target.value.id in env:
                cont = env[target.value.id]
                idx = self.eval_index(target.slice, env, fn)
                if isinstance(cont, DictV) and isinstance(idx, Const) and isinstance(idx.value, str):
                    d = dict(cont.items)
                    d[idx.value] = val
                    env[target.value.id] = DictV(d)
                elif isinstance(cont, (Tup, ListOf)):
                    env[target.value.id] = ListOf(self.join(self.elem_of(cont, st), val))
                else:
                    env[target.value.id] = self.domain.store_sub(self, cont, target.slice, idx, val, st)
            elif isinstance(target.value, ast.Attribute):
                base = self.eval(target.value.value, env, fn)
                if isinstance(base, Obj):
                    cur = self.get_field(base, target.value.attr, target.value)
                    idx = self.eval_index(target.slice, env, fn)
                    base.fields[target.value.attr] = self.domain.store_sub(self, cur, target.slice, idx, val, st)
        elif isinstance(target, ast.Starred):
            self.assign(target.value, val, env, fn, st)

    def unpack(self, val, n: int, node) -> list:
        if isinstance(val, ZipStar):
            return [ListOf(p) for p in self.unpack(val.elem, n, node)]
        if isinstance(val, Tup):
            if len(val.items) == n:
                return list(val.items)
            return [TOP] * n
        if isinstance(val, ListOf):
            return [val.elem] * n
        r = getattr(self.domain, "unpack", None)
        if r is not None:
            out = r(self, val, n, node)
            if out is not NotImplemented:
                return out
        if val is TOP:
            return [TOP] * n
        e = self.elem_of(val, node)
        return [e] * n

    def st_Return(self, st, env, rets, fn):
        val = Const(None) if st.value is None else self.eval(st.value, env, fn)
        for cb in self.on_return:
            cb(self, fn, st, val, env)
        rets.append(val)
        return []

    def st_Raise(self, st, env, rets, fn):
        if st.exc is not None:
            self.eval(st.exc, env, fn)
        for cb in self.on_raise:
            cb(self, fn, st, env)
        return []

    def st_Pass(self, st, env, rets, fn):
        return [env]

    def st_Assert(self, st, env, rets, fn):
        e = self.domain.assume(self, env, st.test, True)
        return [e] if e is not None else []

    def st_Delete(self, st, env, rets, fn):
        return [env]

    def st_Global(self, st, env, rets, fn):
        return [env]

    st_Nonlocal = st_Global

    def st_Import(self, st, env, rets, fn):
        env = dict(env)
        for a in st.names:
            nm = a.asname or a.name.split(".")[0]
            tgt = a.name if a.asname else a.name.split(".")[0]
            env[nm] = self._wrap_resolved(self.model.canonical(tgt), tgt)
        return [env]

    def st_ImportFrom(self, st, env, rets, fn):
        env = dict(env)
        base = st.module or ""
        if st.level:
            pkg = fn.module.name if fn.module.is_pkg else fn.module.name.rpartition(".")[0]
            parts = pkg.split(".")
            if st.level > 1:
                parts = parts[: len(parts) - (st.level - 1)]
            base = ".".join(parts + ([st.module] if st.module else []))
        for a in st.names:
            full = f"{base}.{a.name}"
            env[a.asname or a.name] = self._wrap_resolved(self.model.canonical(full), full)
        return [env]

    def st_FunctionDef(self, st, env, rets, fn):
        env = dict(env)
        sub = None
        for f in self.model.all_functions:
            if f.node is st:
                sub = f
                break
        if sub is not None:
            env[st.name] = FuncRef([sub], closure=env)
        return [env]

    def st_ClassDef(self, st, env, rets, fn):
        return [env]

    def st_If(self, st, env, rets, fn):
        if getattr(self.domain, "split_boolops", False) and isinstance(st.test, ast.BoolOp) and len(st.test.values) >= 2:
            # path-sensitive domains: `if A and B: S else: T` is `if A: (if B: S else: T) else: T` (and dually for `or`), so that the negation of a
            # conjunction becomes two paths with conjunctive path conditions instead of one path without any
            first = st.test.values[0]
            rest = st.test.values[1] if len(st.test.values) == 2 else ast.BoolOp(op=st.test.op, values=st.test.values[1:])
            inner = ast.copy_location(ast.If(test=rest, body=st.body, orelse=st.orelse), st)
            if isinstance(st.test.op, ast.And):
                outer = ast.If(test=first, body=[inner], orelse=st.orelse)
            else:
                outer = ast.If(test=first, body=st.body, orelse=[inner])
            return self.st_If(ast.copy_location(outer, st), env, rets, fn)
        tv = self.eval(st.test, env, fn)
        t = self.domain.truth(self, tv)
        out: list[dict] = []
        if t is not False:
            e1 = self.domain.assume(self, dict(env), st.test, True)
            if e1 is not None:
                out.extend(self.exec_block(st.body, [e1], rets, fn))
        if t is not True:
            e2 = self.domain.assume(self, dict(env), st.test, False)
            if e2 is not None:
                out.extend(self.exec_block(st.orelse, [e2], rets, fn))
        return out

    def items_of(self, val):
        """Concrete element list when the iterable has a known small length, else None."""
        if isinstance(val, Tup) and len(val.items) <= 8:
            return list(val.items)
        h = getattr(self.domain, "items_of", None)
        if h is not None and not isinstance(val, (Tup, ListOf, DictV, Obj, Const)) and val is not TOP:
            out = h(self, val)
            if out is not None and len(out) <= 8:
                return out
        return None

    def st_For(self, st, env, rets, fn):
        it = self.eval(st.iter, env, fn)
        items = self.items_of(it)
        if items is not None and not st.orelse:
            states = [dict(env)]
            exits: list[dict] = []
            for item in items:
                nxt: list[dict] = []
                for e in states:
                    e = dict(e)
                    self.assign(st.target, item, e, fn, st)
                    outs = self.exec_block(st.body, [e], rets, fn)
                    for o in outs:
                        o = dict(o)
                        if o.pop("$break", None):
                            exits.append(o)
                        else:
                            o.pop("$continue", None)
                            nxt.append(o)
                states = self._cap(nxt)
                if not states:
                    break
            return self._cap(states + exits)
        self._abstract_loops += 1
        try:
            return self._for_abstract(st, it, env, rets, fn)
        finally:
            self._abstract_loops -= 1

    def _for_abstract(self, st, it, env, rets, fn):
        elem = self.elem_of(it, st.iter)
        cur = dict(env)
        exits: list[dict] = []
        for _ in range(self.LOOP_ROUNDS):
            body_env = dict(cur)
            self.assign(st.target, elem, body_env, fn, st)
            outs = self.exec_block(st.body, [body_env], rets, fn)
            brk = [e for e in outs if e.get("$break")]
            cont = [e for e in outs if not e.get("$break")]
            for e in brk:
                e = dict(e)
                e.pop("$break", None)
                exits.append(e)
            merged = cur
            for e in cont:
                e = dict(e)
                e.pop("$continue", None)
                merged = self.join_env(merged, e)
            if self._env_eq(merged, cur):
                cur = merged
                break
            cur = merged
        res = [cur] + exits
        if st.orelse:
            res = self.exec_block(st.orelse, [cur], rets, fn) + exits
        return self._cap_small(res)

    def st_While(self, st, env, rets, fn):
        self._abstract_loops += 1
        try:
            return self._while(st, env, rets, fn)
        finally:
            self._abstract_loops -= 1

    def _while(self, st, env, rets, fn):
        cur = dict(env)
        exits: list[dict] = []
        for _ in range(self.LOOP_ROUNDS):
            self.eval(st.test, cur, fn)
            benv = self.domain.assume(self, dict(cur), st.test, True)
            if benv is None:
                break
            outs = self.exec_block(st.body, [benv], rets, fn)
            merged = cur
            for e in outs:
                e = dict(e)
                if e.pop("$break", None):
                    exits.append(e)
                    continue
                e.pop("$continue", None)
                merged = self.join_env(merged, e)
            if self._env_eq(merged, cur):
                break
            cur = merged
        return self._cap_small([cur] + exits)

    def _cap_small(self, states):
        if len(states) <= 1:
            return states
        out = states[0]
        for s in states[1:]:
            out = self.join_env(out, s)
        return [out]

    def _env_eq(self, a: dict, b: dict) -> bool:
        if set(a) != set(b):
            return False
        return all(_deep_same(a[k], b[k]) for k in a)

    def st_Break(self, st, env, rets, fn):
        env = dict(env)
        env["$break"] = True
        return [env]

    def st_Continue(self, st, env, rets, fn):
        env = dict(env)
        env["$continue"] = True
        return [env]

    def st_With(self, st, env, rets, fn):
        env = dict(env)
        for item in st.items:
            v = self.eval(item.context_expr, env, fn)
            if item.optional_vars is not None:
                self.assign(item.optional_vars, v, env, fn, st)
        return self.exec_block(st.body, [env], rets, fn)

    def st_Try(self, st, env, rets, fn):
        outs = self.exec_block(st.body, [dict(env)], rets, fn)
        if st.orelse:
            outs = self.exec_block(st.orelse, outs, rets, fn)
        for h in st.handlers:
            henv = dict(env)
            if h.name:
                henv[h.name] = TOP
            outs = outs + self.exec_block(h.body, [henv], rets, fn)
        if st.finalbody:
            outs = self.exec_block(st.finalbody, outs, rets, fn)
        return outs

    # ---------------------------------------------------------------- expressions
    def eval(self, node: ast.expr, env: dict, fn: FuncInfo):
        m = getattr(self, "ex_" + type(node).__name__, None)
        if m is None:
            return TOP
        return m(node, env, fn)

    def eval_index(self, node, env, fn):
        if isinstance(node, ast.Slice):
            parts = [None if p is None else self.eval(p, env, fn) for p in (node.lower, node.upper, node.step)]
            return ("slice", parts)
        if isinstance(node, ast.Tuple):
            return Tup([self.eval_index(e, env, fn) for e in node.elts])
        return self.eval(node, env, fn)

    def ex_Constant(self, node, env, fn):
        return self.domain.const(self, node.value, node)

    def ex_Name(self, node, env, fn):
        if node.id in env:
            return env[node.id]
        return self.lookup_global(fn, node.id, env)

    def lookup_global(self, fn: FuncInfo, name: str, env: dict):
        clo = env.get("$closure")
        if clo is not None and name in clo:
            return clo[name]
        mod = fn.module
        key = (mod.name, name)
        if key in self._module_cache:
            return self._module_cache[key]
        r = self.model.resolve_dotted(mod, name)
        if r is not None:
            v = self._wrap_resolved(r, name, mod)
        elif name in _BUILTIN_NAMES:
            v = ExtRef("builtins." + name)
        else:
            v = TOP
        self._module_cache[key] = v
        return v

    def _wrap_resolved(self, r, name, mod: ModuleInfo | None = None):
        if isinstance(r, FuncInfo):
            return FuncRef([r])
        if isinstance(r, ClassInfo):
            return ClassRef(r)
        if isinstance(r, ModuleInfo):
            return ModRef(r)
        if isinstance(r, str):
            return ExtRef(r)
        if isinstance(r, tuple) and r and r[0] == "const":
            _, m, cname = r
            expr = m.assigns[cname]
            h = getattr(self.domain, "module_const", None)
            if h is not None:
                out = h(self, m, cname, expr)
                if out is not NotImplemented:
                    return out
            # evaluate simple constant expressions in module context
            if isinstance(expr, (ast.Constant, ast.Tuple, ast.List, ast.UnaryOp, ast.BinOp, ast.Dict)):
                fake = _module_fn(m)
                return self.eval(expr, {}, fake)
            # private module constants built by a call of a library function on literals (`_UNIT_X = np.array([0.0, 0.0, 1.0])`,
            # `_TABLE = str.maketrans("xz", "zx")`): evaluated like the same expression written in place
            if cname.startswith("_") and isinstance(expr, ast.Call) and not any(isinstance(x, ast.Name) and x.id not in ("np", "numpy", "str", "dict", "tuple", "list",
                                                                                                                      "frozenset", "set", "math")
                                                                                for x in ast.walk(expr)):
                fake = _module_fn(m)
                try:
                    return self.eval(expr, {}, fake)
                except Exception:
                    return TOP
            return TOP
        if isinstance(r, tuple) and r and r[0] == "classattr":
            _, ci, an = r
            fake = _module_fn(ci.module)
            return self.eval(ci.class_attrs[an], {}, fake)
        return TOP

    def ex_Attribute(self, node, env, fn):
        base = self.eval(node.value, env, fn)
        return self.get_attr(base, node.attr, node, fn)

    def get_attr(self, base, name: str, node, fn):
        r = self.domain.attr(self, base, name, node)
        if r is not NotImplemented:
            return r
        if isinstance(base, Obj):
            return self.get_field(base, name, node)
        if isinstance(base, ModRef):
            r = self.model._member(base.mod, [name], 0)
            return self._wrap_resolved(r, name, base.mod) if r is not None else TOP
        if isinstance(base, ExtRef):
            if base.recv is None:
                return ExtRef(base.name + "." + name)
            return ExtRef(base.name + "." + name, recv=base.recv)
        if isinstance(base, ClassRef):
            m = base.cls.find_method(name)
            if m is not None:
                if m.is_classmethod:
                    return FuncRef([m], bound=base)
                return FuncRef([m])
            for c in base.cls.mro():
                if name in c.class_attrs:
                    return self.eval(c.class_attrs[name], {}, _module_fn(c.module))
            return TOP
        if isinstance(base, Tup) or isinstance(base, ListOf) or isinstance(base, DictV):
            return ExtRef("builtins.container." + name, recv=base)
        if isinstance(base, Const):
            return ExtRef("builtins.const." + name, recv=base)
        if base is TOP:
            return TOP
        # a domain value: bound external method
        return ExtRef("value." + name, recv=base)

    def get_field(self, obj: Obj, name: str, node):
        if name in obj.fields:
            return obj.fields[name]
        if name == "__class__":
            return ClassRef(obj.cls)
        # property getter / method
        m = obj.cls.find_method(name)
        if m is not None:
            if m.is_property:
                s = self.domain.seed_field(self, obj, name, node)
                if s is not TOP:
                    return s
                return self.call_funcs([m], obj, [], {}, node)
            if m.is_staticmethod:
                return FuncRef([m])
            if m.is_classmethod:
                return FuncRef([m], bound=ClassRef(obj.cls))
            ms = self.model.resolve_self_method(obj.cls, name) if obj.tag == "self" else [m]
            return FuncRef(ms, bound=obj)
        for c in obj.cls.mro():
            if name in c.class_attrs:
                s = self.domain.seed_field(self, obj, name, node)
                if s is not TOP:
                    return s
                return self.eval(c.class_attrs[name], {}, _module_fn(c.module))
        v = self.domain.seed_field(self, obj, name, node)
        obj.fields[name] = v
        return v

    def ex_Tuple(self, node, env, fn):
        items = []
        for e in node.elts:
            if isinstance(e, ast.Starred):
                v = self.eval(e.value, env, fn)
                its = self.items_of(v)
                if its is not None:
                    items.extend(its)
                else:
                    el = self.elem_of(v, e)
                    others = [self.eval(x, env, fn) for x in node.elts if x is not e and not isinstance(x, ast.Starred)]
                    acc = el
                    for o in others:
                        acc = self.join(acc, o)
                    return ListOf(acc)
            else:
                items.append(self.eval(e, env, fn))
        return Tup(items)

    ex_List = ex_Tuple

    def ex_Set(self, node, env, fn):
        vals = [self.eval(e, env, fn) for e in node.elts]
        return ListOf(self.domain.join_many(self, vals)) if vals else ListOf(TOP)

    def ex_Dict(self, node, env, fn):
        items = {}
        ok = True
        for k, v in zip(node.keys, node.values):
            val = self.eval(v, env, fn)
            if k is None:
                if isinstance(val, DictV):
                    items.update(val.items)
                else:
                    ok = False
            elif isinstance(k, ast.Constant) and isinstance(k.value, str):
                items[k.value] = val
            else:
                self.eval(k, env, fn)
                ok = False
                items[f"$dyn{len(items)}"] = val
        return DictV(items)

    def ex_JoinedStr(self, node, env, fn):
        for v in node.values:
            if isinstance(v, ast.FormattedValue):
                self.eval(v.value, env, fn)
        return Const("<str>")

    def ex_FormattedValue(self, node, env, fn):
        return Const("<str>")

    def ex_NamedExpr(self, node, env, fn):
        v = self.eval(node.value, env, fn)
        env[node.target.id] = v  # in-place: walrus binds in the enclosing scope
        return v

    def ex_Starred(self, node, env, fn):
        return self.eval(node.value, env, fn)

    def ex_Lambda(self, node, env, fn):
        return LambdaRef(node, env, fn)

    def ex_IfExp(self, node, env, fn):
        tv = self.eval(node.test, env, fn)
        t = self.domain.truth(self, tv)
        if t is True:
            return self.eval(node.body, env, fn)
        if t is False:
            return self.eval(node.orelse, env, fn)
        a = self.eval(node.body, env, fn)
        b = self.eval(node.orelse, env, fn)
        return self.join(a, b)

    def ex_BinOp(self, node, env, fn):
        l = self.eval(node.left, env, fn)
        r = self.eval(node.right, env, fn)
        return self.binop(node.op, l, r, node)

    def binop(self, op, l, r, node):
        # sequence algebra handled structurally
        if isinstance(op, ast.Add):
            if isinstance(l, Tup) and isinstance(r, Tup):
                return Tup(l.items + r.items)
            if isinstance(l, (Tup, ListOf)) and isinstance(r, (Tup, ListOf)):
                return ListOf(self.join(self.elem_of(l, node), self.elem_of(r, node)))
        if isinstance(op, ast.Mult):
            for a, b in ((l, r), (r, l)):
                if isinstance(a, (Tup, ListOf)) and not isinstance(b, (Tup, ListOf)):
                    h = getattr(self.domain, "seq_repeat", None)
                    if h is not None:
                        out = h(self, a, b, node)
                        if out is not NotImplemented:
                            return out
                    if isinstance(a, Tup) and len(a.items) == 1:
                        return ListOf(a.items[0])
                    return ListOf(self.elem_of(a, node))
        return self.domain.binop(self, op, l, r, node)

    def ex_UnaryOp(self, node, env, fn):
        v = self.eval(node.operand, env, fn)
        if isinstance(node.op, ast.Not):
            t = self.domain.truth(self, v)
            if t is not None:
                return Const(not t)
        return self.domain.unary(self, node.op, v, node)

    def ex_BoolOp(self, node, env, fn):
        vals = [self.eval(v, env, fn) for v in node.values]
        ts = [True if isinstance(v, (ExtRef, FuncRef, ClassRef, ModRef, LambdaRef)) else self.domain.truth(self, v) for v in vals]
        if isinstance(node.op, ast.Or):
            # `a or b`: first truthy
            out = []
            for v, t in zip(vals, ts):
                if t is True:
                    out.append(v)
                    break
                if t is False:
                    continue
                out.append(v)
            else:
                if not out:
                    out = [vals[-1]]
            if len(out) == 1:
                return out[0]
            return self.domain.boolop(self, node, out)
        else:
            for v, t in zip(vals, ts):
                if t is False:
                    return v
            rest = [v for v, t in zip(vals, ts) if t is not True] or [vals[-1]]
            if len(rest) == 1:
                return rest[0]
            return self.domain.boolop(self, node, rest)

    def ex_Compare(self, node, env, fn):
        vals = [self.eval(node.left, env, fn)] + [self.eval(c, env, fn) for c in node.comparators]
        # `x is None` with known constants
        if len(node.ops) == 1 and isinstance(node.ops[0], (ast.Is, ast.IsNot)):
            a, b = vals
            if isinstance(b, Const) and b.value is None:
                if isinstance(a, Const):
                    res = a.value is None
                    return Const(res if isinstance(node.ops[0], ast.Is) else not res)
                if isinstance(a, (Tup, ListOf, DictV, Obj, FuncRef, ClassRef, ModRef, LambdaRef)) or (
                        a is not TOP and not isinstance(a, (Const, ExtRef)) and getattr(a, "maybe_none", True) is False):
                    return Const(isinstance(node.ops[0], ast.IsNot))
        return self.domain.compare(self, node, vals)

    def ex_Subscript(self, node, env, fn):
        base = self.eval(node.value, env, fn)
        idx = self.eval_index(node.slice, env, fn)
        r = self.domain.subscript(self, base, node.slice, idx, node)
        if r is not NotImplemented:
            return r
        if isinstance(base, Tup):
            k = _const_int(node.slice)
            if k is not None and -len(base.items) <= k < len(base.items):
                return base.items[k]
            if isinstance(node.slice, ast.Slice):
                lo = _const_int(node.slice.lower) if node.slice.lower is not None else None
                hi = _const_int(node.slice.upper) if node.slice.upper is not None else None
                if (node.slice.lower is None or lo is not None) and (node.slice.upper is None or hi is not None) and node.slice.step is None:
                    return Tup(base.items[lo:hi])
                return ListOf(self.elem_of(base, node))
            return self.elem_of(base, node)
        if isinstance(base, ListOf):
            if isinstance(node.slice, ast.Slice):
                return base
            return base.elem
        if isinstance(base, DictV):
            if isinstance(idx, Const) and idx.value in base.items:
                return base.items[idx.value]
            vals = [v for k, v in base.items.items() if k != "$key"]
            return self.domain.join_many(self, vals) if vals else TOP
        return TOP

    def ex_ListComp(self, node, env, fn):
        return self._comp(node, env, fn, node.elt, one_shot=False)

    ex_SetComp = ex_ListComp

    def ex_GeneratorExp(self, node, env, fn):
        return self._comp(node, env, fn, node.elt, one_shot=True)

    def ex_DictComp(self, node, env, fn):
        inner = dict(env)
        for g in node.generators:
            it = self.eval(g.iter, inner, fn)
            self.assign(g.target, self.elem_of(it, g.iter), inner, fn, node)
            for c in g.ifs:
                self.eval(c, inner, fn)
        k = self.eval(node.key, inner, fn)
        v = self.eval(node.value, inner, fn)
        return DictV({"$dyn": v, "$key": k})

    def _comp(self, node, env, fn, elt, one_shot):
        inner = dict(env)
        # a comprehension over a fixed-length tuple with a single generator is unrolled
        if len(node.generators) == 1 and not node.generators[0].ifs:
            g = node.generators[0]
            it = self.eval(g.iter, inner, fn)
            its = self.items_of(it)
            if its is not None and len(its) > 0:
                outs = []
                for item in its:
                    e2 = dict(inner)
                    self.assign(g.target, item, e2, fn, node)
                    outs.append(self.eval(elt, e2, fn))
                return Tup(outs) if not one_shot else Tup(outs)
            self.assign(g.target, self.elem_of(it, g.iter), inner, fn, node)
            return ListOf(self.eval(elt, inner, fn), one_shot=one_shot)
        # several generators without conditions over fixed-length iterables: unrolled as nested loops (left generator outermost)
        if all(not g.ifs for g in node.generators):
            def rec(k, e):
                if k == len(node.generators):
                    return [self.eval(elt, e, fn)]
                g = node.generators[k]
                its = self.items_of(self.eval(g.iter, e, fn))
                if its is None or len(its) == 0:
                    return None
                acc = []
                for item in its:
                    e2 = dict(e)
                    self.assign(g.target, item, e2, fn, node)
                    sub = rec(k + 1, e2)
                    if sub is None:
                        return None
                    acc.extend(sub)
                    if len(acc) > 64:
                        return None
                return acc
            outs = rec(0, inner)
            if outs is not None:
                return Tup(outs)
        for g in node.generators:
            it = self.eval(g.iter, inner, fn)
            self.assign(g.target, self.elem_of(it, g.iter), inner, fn, node)
            for c in g.ifs:
                self.eval(c, inner, fn)
        return ListOf(self.eval(elt, inner, fn), one_shot=one_shot)

    def ex_Yield(self, node, env, fn):
        if node.value is not None and self._yields:
            self._yields[-1].append(self.eval(node.value, env, fn))
        return TOP

    def ex_YieldFrom(self, node, env, fn):
        if self._yields:
            self._yields[-1].append(self.elem_of(self.eval(node.value, env, fn), node))
        return TOP

    def ex_Await(self, node, env, fn):
        return self.eval(node.value, env, fn)

    # ---------------------------------------------------------------- iteration
    def elem_of(self, val, node):
        if isinstance(val, Tup):
            if not val.items:
                return TOP
            return self.domain.join_many(self, list(val.items))
        if isinstance(val, ListOf):
            return val.elem
        if isinstance(val, DictV):
            return Const("<key>")
        if val is TOP:
            return TOP
        if isinstance(val, Obj):
            # repo class with __iter__
            m = val.cls.find_method("__iter__")
            if m is not None:
                r = self.call_funcs([m], val, [], {}, node)
                return self.elem_of(r, node)
            return TOP
        if isinstance(val, (Const, FuncRef, ClassRef, ModRef, ExtRef, LambdaRef)):
            return TOP
        return self.domain.elem(self, val, node)

    def join(self, a, b):
        if a is b:
            return a
        if a is TOP or b is TOP:
            return TOP
        if isinstance(a, Tup) and isinstance(b, Tup):
            if len(a.items) == len(b.items):
                return Tup([self.join(x, y) for x, y in zip(a.items, b.items)])
            return ListOf(self.join(self.elem_of(a, None), self.elem_of(b, None)))
        if isinstance(a, (Tup, ListOf)) and isinstance(b, (Tup, ListOf)):
            ea = self.elem_of(a, None) if not (isinstance(a, Tup) and not a.items) else None
            eb = self.elem_of(b, None) if not (isinstance(b, Tup) and not b.items) else None
            if ea is None:
                return ListOf(eb)
            if eb is None:
                return ListOf(ea)
            return ListOf(self.join(ea, eb))
        if isinstance(a, DictV) and isinstance(b, DictV):
            keys = set(a.items) | set(b.items)
            return DictV({k: (self.join(a.items[k], b.items[k]) if k in a.items and k in b.items else a.items.get(k, b.items.get(k))) for k in keys})
        if isinstance(a, Obj) and isinstance(b, Obj) and a.cls is b.cls:
            return a
        if isinstance(a, FuncRef) and isinstance(b, FuncRef):
            fs = list(a.funcs)
            for f in b.funcs:
                if f not in fs:
                    fs.append(f)
            return FuncRef(fs, bound=a.bound if a.bound is not None else b.bound)
        if _same(a, b):
            return a
        return self.domain.join(self, a, b)

    # ---------------------------------------------------------------- calls
    def ex_Call(self, node: ast.Call, env, fn):
        callee = self.eval(node.func, env, fn)
        args: list = []
        star_unknown = False
        for a in node.args:
            if isinstance(a, ast.Starred):
                v = self.eval(a.value, env, fn)
                if isinstance(v, Tup):
                    args.extend(v.items)
                else:
                    star_unknown = True
                    args.append(("*", v))
            else:
                args.append(self.eval(a, env, fn))
        kwargs: dict = {}
        for k in node.keywords:
            v = self.eval(k.value, env, fn)
            if k.arg is None:
                if isinstance(v, DictV):
                    for kk, vv in v.items.items():
                        if not kk.startswith("$"):
                            kwargs[kk] = vv
                        else:
                            kwargs.setdefault("$dyn", vv)
                else:
                    kwargs["$star"] = v
            else:
                kwargs[k.arg] = v
        args, kwargs = self._positionalise(callee, args, kwargs)
        for cb in self.on_call:
            cb(self, fn, node, callee, args, kwargs, env)
        return self.apply(callee, args, kwargs, node, env, fn)

    def _positionalise(self, callee, args, kwargs):
        """Keyword arguments that name the next positional parameters of a callee with a known signature are moved into the positional list, so that
        observers and domain transfer functions see `f(a, b)` whether the code says `f(a, b)`, `f(a, y=b)` or `f(x=a, y=b)`."""
        if any(isinstance(a, tuple) and len(a) == 2 and a[0] == "*" for a in args) or any(str(k).startswith("$") for k in kwargs):
            return args, kwargs
        params = None
        if isinstance(callee, FuncRef) and len(callee.funcs) >= 1:
            sigs = set()
            for f in callee.funcs:
                if f.is_overload:
                    continue
                a = f.node.args
                ps = [x.arg for x in list(a.posonlyargs) + list(a.args)]
                if f.cls is not None and f.parent is None and not f.is_staticmethod and ps and (callee.bound is not None or f.is_classmethod):
                    ps = ps[1:]
                sigs.add(tuple(ps))
            if len(sigs) == 1:
                params = list(sigs.pop())
        elif isinstance(callee, ClassRef):
            init = callee.cls.find_method("__init__")
            if init is not None:
                a = init.node.args
                params = [x.arg for x in list(a.posonlyargs) + list(a.args)][1:]
        # library callables are left as written: their transfer functions and the rules about them read the keywords the code uses
        if not params:
            return args, kwargs
        args = list(args)
        kwargs = dict(kwargs)
        i = len(args)
        while i < len(params) and params[i] in kwargs:
            args.append(kwargs.pop(params[i]))
            i += 1
        return args, kwargs

    def apply(self, callee, args, kwargs, node, env, fn):
        if isinstance(callee, FuncRef):
            if callee.closure is not None:
                return self.call_funcs(callee.funcs, callee.bound, args, kwargs, node, closure=callee.closure)
            return self.call_funcs(callee.funcs, callee.bound, args, kwargs, node)
        if isinstance(callee, LambdaRef):
            lenv = dict(callee.env)
            self._bind(callee.node.args, None, args, kwargs, lenv, callee.fn, node)
            return self.eval(callee.node.body, lenv, callee.fn)
        if isinstance(callee, ClassRef):
            r = self.domain.construct(self, callee.cls, args, kwargs, node)
            if r is not NotImplemented:
                return r
            return self.instantiate(callee.cls, args, kwargs, node)
        if isinstance(callee, ExtRef):
            b = self._builtin(callee, args, kwargs, node, env, fn)
            if b is not NotImplemented:
                return b
            return self.domain.call_external(self, callee.name, callee.recv, _plain(args), kwargs, node)
        if callee is TOP:
            return self.domain.call_external(self, None, None, _plain(args), kwargs, node)
        if isinstance(callee, Obj):
            m = callee.cls.find_method("__call__")
            if m is not None:
                return self.call_funcs([m], callee, args, kwargs, node)
            return TOP
        # calling a domain value (e.g. a curried provider)
        h = getattr(self.domain, "call_value", None)
        if h is not None:
            return h(self, callee, _plain(args), kwargs, node)
        return TOP

    def instantiate(self, cls: ClassInfo, args, kwargs, node):
        obj = Obj(cls)
        init = cls.find_method("__init__")
        if init is not None and len(self.stack) < self.depth and init not in self.stack:
            self.call_funcs([init], obj, args, kwargs, node, force_inline=True)
        return obj

    def call_funcs(self, funcs, bound, args, kwargs, node, closure=None, force_inline=False):
        if not force_inline:
            r = self.domain.call_repo(self, funcs, bound, _plain(args), kwargs, node)
            if r is not NotImplemented:
                return r
        outs = []
        for f in funcs:
            if f.is_overload or _is_abstract(f):
                continue
            # private helpers that no rule is anchored in are transparent: extracting a few lines into `_helper(...)` must not change what the rules see
            # (bounded: at most 3 such frames on the stack)
            free = sum(1 for g in self.stack[1:] if _is_free_helper(g))
            bonus = min(free, 3) + (1 if (_is_free_helper(f) and free < 3) else 0)
            if len(self.stack) >= self.depth + bonus + (1 if force_inline else 0) or f in self.stack:
                outs.append(self.domain.top_call(self, node))
                continue
            env = {}
            if closure is not None:
                env["$closure"] = {k: v for k, v in closure.items() if not k.startswith("$")}
            b = bound
            if f.is_classmethod and isinstance(bound, Obj):
                b = ClassRef(bound.cls)
            if f.is_staticmethod:
                b = None
            self._bind(f.node.args, b if (f.cls is not None and f.parent is None and not f.is_staticmethod) else None, args, kwargs, env, f, node)
            outs.append(self._run_body(f, env))
        if not outs:
            return TOP
        out = outs[0]
        for v in outs[1:]:
            out = self.join(out, v)
        return out

    def _bind(self, a: ast.arguments, bound, args, kwargs, env, f: FuncInfo, node):
        params = list(a.posonlyargs) + list(a.args)
        pos = list(args)
        if bound is not None and params:
            env[params[0].arg] = bound
            params = params[1:]
        elif bound is None and f.cls is not None and f.parent is None and params and not f.is_staticmethod and isinstance(f.node, ast.FunctionDef) and a is f.node.args:
            # unbound method call C.m(obj, ...): first arg is self
            pass
        defaults = list(a.defaults)
        dstart = len(list(a.posonlyargs) + list(a.args)) - len(defaults)
        allp = list(a.posonlyargs) + list(a.args)
        extra = []
        unknown_star = None
        i = 0
        for v in pos:
            if isinstance(v, tuple) and len(v) == 2 and v[0] == "*":
                unknown_star = v[1]
                continue
            if i < len(params):
                env[params[i].arg] = v
                i += 1
            else:
                extra.append(v)
        for p in params[i:]:
            if p.arg in kwargs:
                env[p.arg] = kwargs[p.arg]
            elif unknown_star is not None:
                env[p.arg] = self.elem_of(unknown_star, node)
            else:
                idx = allp.index(p)
                if idx >= dstart:
                    env[p.arg] = self.eval(defaults[idx - dstart], {}, _module_fn(f.module))
                elif "$star" in kwargs or "$dyn" in kwargs:
                    env[p.arg] = TOP
                else:
                    env[p.arg] = self.domain.seed_param(self, f, p)
        for p, d in zip(a.kwonlyargs, a.kw_defaults):
            if p.arg in kwargs:
                env[p.arg] = kwargs[p.arg]
            elif d is not None:
                env[p.arg] = self.eval(d, {}, _module_fn(f.module))
            else:
                env[p.arg] = TOP
        if a.vararg:
            env[a.vararg.arg] = Tup(extra) if unknown_star is None else ListOf(self.elem_of(unknown_star, node))
        if a.kwarg:
            names = {p.arg for p in allp} | {p.arg for p in a.kwonlyargs}
            env[a.kwarg.arg] = DictV({k: v for k, v in kwargs.items() if k not in names and not k.startswith("$")})

    # builtins the engine interprets structurally
    def _builtin(self, callee: ExtRef, args, kwargs, node, env, fn):
        name = callee.name
        pargs = _plain(args)
        if name == "builtins.zip" and len(args) == 1 and isinstance(args[0], tuple) and len(args[0]) == 2 and args[0][0] == "*":
            # zip(*rows): the transposition - component k of the result is the sequence of the k-th components of the rows
            return ZipStar(self.elem_of(args[0][1], node))
        if name == "builtins.zip":
            lists = [self.items_of(a) for a in pargs]
            if pargs and all(l is not None for l in lists):
                n = min(len(l) for l in lists)
                if len({len(l) for l in lists}) > 1:
                    h = getattr(self.domain, "zip_length_mismatch", None)
                    if h is not None:
                        h(self, node, [len(l) for l in lists])
                return Tup([Tup([l[i] for l in lists]) for i in range(n)])
            return ListOf(Tup([self.elem_of(a, node) for a in pargs]), one_shot=True)
        if name == "builtins.map" and len(pargs) == 2:
            # map(f, xs) == (f(x) for x in xs)
            fobj, xs = pargs
            its = self.items_of(xs)
            if its is not None:
                return Tup([self.apply(fobj, [x], {}, node, env, fn) for x in its])
            return ListOf(self.apply(fobj, [self.elem_of(xs, node)], {}, node, env, fn), one_shot=True)
        if name == "builtins.enumerate":
            idx = self.domain.const(self, 0, node)
            h = getattr(self.domain, "index_value", None)
            if h is not None:
                idx = h(self, node)
            its = self.items_of(pargs[0]) if pargs else None
            if its is not None:
                return Tup([Tup([self.domain.const(self, i, node), v]) for i, v in enumerate(its)])
            return ListOf(Tup([idx, self.elem_of(pargs[0], node) if pargs else TOP]), one_shot=True)
        if name in ("builtins.list", "builtins.tuple", "builtins.sorted", "builtins.reversed", "builtins.iter", "builtins.set", "builtins.frozenset"):
            if not pargs:
                return Tup([])
            v = pargs[0]
            if isinstance(v, Tup):
                if name == "builtins.reversed":
                    return Tup(list(reversed(v.items)))
                if name in ("builtins.sorted", "builtins.set", "builtins.frozenset"):
                    return ListOf(self.elem_of(v, node))
                return v
            if isinstance(v, ListOf):
                return ListOf(v.elem)
            h = getattr(self.domain, "to_sequence", None)
            if h is not None:
                out = h(self, name, v, node)
                if out is not NotImplemented:
                    return out
            return ListOf(self.elem_of(v, node))
        if name == "builtins.dict":
            if pargs and isinstance(pargs[0], DictV):
                d = dict(pargs[0].items)
            elif pargs:
                return DictV({"$dyn": TOP})
            else:
                d = {}
            d.update({k: v for k, v in kwargs.items()})
            return DictV(d)
        if name == "builtins.next":
            return self.elem_of(pargs[0], node) if pargs else TOP
        if name == "builtins.container.copy" and callee.recv is not None:
            return callee.recv
        if name == "builtins.container.values" and isinstance(callee.recv, DictV):
            vals = list(callee.recv.items.values())
            return Tup(vals)
        if name == "builtins.container.items" and isinstance(callee.recv, DictV):
            return Tup([Tup([Const(k), v]) for k, v in callee.recv.items.items()])
        if name == "builtins.container.keys" and isinstance(callee.recv, DictV):
            return Tup([Const(k) for k in callee.recv.items])
        if name == "builtins.container.get" and isinstance(callee.recv, DictV):
            if pargs and isinstance(pargs[0], Const) and pargs[0].value in callee.recv.items:
                return callee.recv.items[pargs[0].value]
            vals = list(callee.recv.items.values()) + (pargs[1:2])
            return self.domain.join_many(self, vals) if vals else TOP
        if name == "builtins.container.pop" and isinstance(callee.recv, DictV):
            if pargs and isinstance(pargs[0], Const) and pargs[0].value in callee.recv.items:
                return callee.recv.items[pargs[0].value]
            return TOP
        if name in ("builtins.isinstance", "builtins.hasattr", "builtins.callable", "builtins.issubclass"):
            h = getattr(self.domain, "type_test", None)
            if h is not None:
                out = h(self, name, pargs, node)
                if out is not NotImplemented:
                    return out
            return TOP
        if name == "builtins.super":
            return TOP
        if name == "builtins.type" and len(pargs) == 1 and isinstance(pargs[0], Obj):
            return ClassRef(pargs[0].cls)
        if name == "builtins.getattr" and len(pargs) >= 2 and isinstance(pargs[1], Const) and isinstance(pargs[1].value, str):
            return self.get_attr(pargs[0], pargs[1].value, node, fn)
        return NotImplemented


def _plain(args):
    return [a[1] if (isinstance(a, tuple) and len(a) == 2 and a[0] == "*") else a for a in args]


def _as_load(t: ast.expr) -> ast.expr:
    import copy

    n = copy.deepcopy(t)
    for x in ast.walk(n):
        if hasattr(x, "ctx"):
            x.ctx = ast.Load()
    return n


def _const_int(node) -> int | None:
    if node is None:
        return None
    if isinstance(node, ast.Constant) and isinstance(node.value, int) and not isinstance(node.value, bool):
        return node.value
    if isinstance(node, ast.UnaryOp) and isinstance(node.op, ast.USub):
        v = _const_int(node.operand)
        return -v if v is not None else None
    return None


def _is_abstract(f: FuncInfo) -> bool:
    if f.has_decorator("abstractmethod"):
        return True
    return False


_module_fns: dict = {}


def _module_fn(mod: ModuleInfo) -> FuncInfo:
    """A pseudo function used as evaluation context for module-level expressions."""
    f = _module_fns.get(id(mod))
    if f is None:
        node = ast.parse("def __module__(): pass").body[0]
        f = FuncInfo(module=mod, cls=None, name="<module>", node=node)
        _module_fns[id(mod)] = f
    return f


def _deep_same(a, b) -> bool:
    if a is b:
        return True
    if type(a) is not type(b):
        return False
    if isinstance(a, Tup):
        return len(a.items) == len(b.items) and all(_deep_same(x, y) for x, y in zip(a.items, b.items))
    if isinstance(a, ListOf):
        return _deep_same(a.elem, b.elem)
    if isinstance(a, DictV):
        return set(a.items) == set(b.items) and all(_deep_same(a.items[k], b.items[k]) for k in a.items)
    if isinstance(a, (Obj, FuncRef, LambdaRef, ClassRef, ModRef)):
        return True
    try:
        return a == b
    except Exception:
        return False


_BUILTIN_NAMES = set(dir(__import__("builtins")))
