"""Thorough tier: the checker is exercised on in-memory variants of the *current* tree.

kill     single-site edits that break the property (curated in corpus.jsonl, each one was seen to be reported).  The check must report
         every one whose site still exists (a vanished site makes the mutant stale; it is skipped and counted).
benign   single-site equivalent rewrites from the corpus, and four behaviour-preserving whole-package transformations
         (selftest.transforms: reformat, rename every local variable, insert dead assignments, hoist arguments into temporaries).
         The check must stay silent on all of them.

Nothing is written to /repo; variants live in the model overlay.  Results go into the evidence file.  A self-test miss is reported as
SELFTEST lines and in the evidence, it does not change the verdict about /repo (the verdict is about the tree, not about the checker);
``python -m selftest.run PROP`` (or ALL) exits 1 on any miss so that the corpus can be used as a regression suite for the machinery.
"""
from __future__ import annotations

import json
import os
import sys
from concurrent.futures import ProcessPoolExecutor

HERE = os.path.dirname(os.path.abspath(__file__))
sys.path.insert(0, os.path.dirname(HERE))

from selftest.mutate import Stale, overlay_for  # noqa: E402
from selftest.transforms import TRANSFORMS, overlay  # noqa: E402
from selftest import seeds as _seeds  # noqa: E402


def load_corpus(prop: str) -> list[dict]:
    out = []
    with open(os.path.join(HERE, "corpus.jsonl")) as f:
        for ln in f:
            ln = ln.strip()
            if ln:
                e = json.loads(ln)
                if e["prop"] == prop:
                    out.append(e)
    return out


def seeds_expected(prop: str) -> list[dict]:
    """Seeded changes that this property's check reported when the catch table (seeded/RESULTS.json) was last generated: they must still be reported."""
    path = os.path.join(_seeds.SEEDED, "RESULTS.json")
    if not os.path.exists(path):
        return []
    res = {r["seed"]: r for r in json.load(open(path))}
    out = []
    for sd in _seeds.seeds_for():
        r = res.get(sd["id"])
        if r and prop in (r.get("caught_by") or {}):
            out.append(dict(sd, expect_here=True))
    return out


def benign_expected(prop: str) -> list[dict]:
    """Behaviour-preserving refactors (seeded_benign/, made by sub-agents, suite-passing, outputs identical) on which every check was silent when
    seeded_benign/RESULTS.json was last generated: this property's check must stay silent on them."""
    base = os.path.join(os.path.dirname(_seeds.SEEDED), "seeded_benign")
    path = os.path.join(base, "RESULTS.json")
    if not os.path.exists(path):
        return []
    out = []
    for r in json.load(open(path)):
        if r.get("property") == prop and not r.get("alarms") and "error" not in r:
            out.append({"id": r["seed"], "dir": os.path.join(base, r["seed"]), "title": r.get("title"), "benign": True})
    return out


def _verdict(prop, root, ov):
    from check import decide_property as run_property
    rep = run_property(prop, "quick", root, overlay=ov)
    r, u = rep.new_refuted(), rep.undecided()
    if r:
        return "refuted", f"{r[0].rule} {r[0].where}: {r[0].desc[:110]} -- {r[0].detail[:160]}"
    if u or rep.errors:
        return "flagged", (f"{u[0].rule} {u[0].where}: {u[0].desc[:110]} -- {u[0].detail[:120]}" if u else str(rep.errors[0])[:200])
    return "silent", ""


def _one(job):
    kind, prop, root, e = job
    try:
        if kind == "transform":
            ov = overlay(root, e)
            v, d = _verdict(prop, root, ov)
            return dict(id=f"{prop}-t-{e}", kind="benign", what=f"whole-package transformation `{e}`", outcome=v, detail=d, ok=(v == "silent"))
        if kind == "benign-seed":
            try:
                ov = _seeds.overlay_of(e["dir"], root)
            except _seeds.PatchStale as s:
                return dict(id="refactor-" + e["id"], kind="benign", what=f"behaviour-preserving refactor {e['id']}: {str(e.get('title'))[:70]}", outcome="stale", detail=str(s)[:120], ok=None)
            v, d = _verdict(prop, root, ov)
            return dict(id="refactor-" + e["id"], kind="benign", what=f"behaviour-preserving refactor {e['id']}: {str(e.get('title'))[:70]}", outcome=v, detail=d, ok=(v == "silent"))
        if kind == "seed":
            try:
                ov = _seeds.overlay_of(e["dir"], root)
            except _seeds.PatchStale as s:
                return dict(id="seed-" + e["id"], kind="seed", what=f"seeded change {e['id']}: {str(e.get('title'))[:80]}", outcome="stale", detail=str(s)[:120], ok=None)
            v, d = _verdict(prop, root, ov)
            return dict(id="seed-" + e["id"], kind="seed", what=f"seeded change {e['id']}: {str(e.get('title'))[:80]}", outcome=v, detail=d,
                        ok=(v in ("refuted", "flagged")) if e.get("expect_here") else None)
        try:
            ov = overlay_for(root, e["rel"], e["old"], e["new"], e.get("within"))
        except Stale as s:
            return dict(id=e["id"], kind=e["kind"], what=f"{e['rel']}: {e['old'][:60]!r} -> {e['new'][:60]!r}", outcome="stale", detail=str(s)[:120], ok=None)
        v, d = _verdict(prop, root, ov)
        if e["kind"] == "kill":
            ok = v in ("refuted", "flagged")
        else:
            ok = v == "silent"
        return dict(id=e["id"], kind=e["kind"], what=f"{e['rel']}: {e['old'][:60]!r} -> {e['new'][:60]!r}", outcome=v, detail=d, ok=ok)
    except Exception as x:  # the checker crashed on a variant
        import traceback
        return dict(id=(e if isinstance(e, str) else e.get("id")), kind=kind, what=str(e)[:100], outcome="crash", detail=traceback.format_exc()[-400:], ok=False)


def selftest(prop: str, root: str = "/repo", workers: int = 16) -> list[dict]:
    jobs = [("transform", prop, root, t) for t in TRANSFORMS]
    jobs += [("corpus", prop, root, e) for e in load_corpus(prop)]
    jobs += [("seed", prop, root, e) for e in seeds_expected(prop)]
    jobs += [("benign-seed", prop, root, e) for e in benign_expected(prop)]
    with ProcessPoolExecutor(min(workers, max(1, len(jobs)))) as ex:
        return list(ex.map(_one, jobs))


def run_selftest(prop, rep, root):
    res = selftest(prop, root)
    kills = [r for r in res if r["kind"] == "kill"]
    ben = [r for r in res if r["kind"] == "benign"]
    seeds = [r for r in res if r["kind"] == "seed"]
    summ = {
        "seeded_changes": len(seeds), "seeded_reported": sum(1 for r in seeds if r["outcome"] in ("refuted", "flagged")),
        "seeded_missed": [r["id"] for r in seeds if r["outcome"] == "silent"],
        "kill_mutants": len(kills), "killed_refuted": sum(1 for r in kills if r["outcome"] == "refuted"),
        "killed_flagged": sum(1 for r in kills if r["outcome"] == "flagged"), "survived": [r["id"] for r in kills if r["outcome"] == "silent"],
        "stale": [r["id"] for r in res if r["outcome"] == "stale"],
        "benign_variants": len(ben), "benign_silent": sum(1 for r in ben if r["outcome"] == "silent"),
        "benign_alarms": [r["id"] for r in ben if r["outcome"] in ("refuted", "flagged", "crash")],
    }
    rep.stats["selftest"] = summ
    rep.note(f"self-test on variants of the current tree: {summ['killed_refuted']}+{summ['killed_flagged']}/{len(kills) - len([r for r in kills if r['outcome'] == 'stale'])} "
             f"breaking edits reported (refuted+flagged), {summ['benign_silent']}/{len(ben) - len([r for r in ben if r['outcome'] == 'stale'])} "
             f"behaviour-preserving variants silent, {summ['seeded_reported']}/{len(seeds)} seeded multi-line changes (sub-agents, suite-passing) reported, "
             f"{len(summ['stale'])} stale")
    for r in res:
        if r["ok"] is False:
            print(f"SELFTEST-MISS property={prop} {r['id']} ({r['kind']}): {r['what']} -> {r['outcome']} {r['detail'][:160]}")
    return res


def main(argv):
    props = argv or ["ALL"]
    if props == ["ALL"]:
        props = sorted({json.loads(l)["prop"] for l in open(os.path.join(HERE, "corpus.jsonl")) if l.strip()})
    bad = 0
    for p in props:
        res = selftest(p)
        miss = [r for r in res if r["ok"] is False]
        stale = [r for r in res if r["outcome"] == "stale"]
        print(f"{p}: {len(res)} variants, {len(miss)} misses, {len(stale)} stale")
        for r in miss:
            print(f"   MISS {r['id']} ({r['kind']}) {r['what']} -> {r['outcome']}: {r['detail'][:200]}")
        for r in stale:
            print(f"   stale {r['id']} {r['what']}: {r['detail'][:100]}")
        bad += len(miss)
    return 1 if bad else 0


if __name__ == "__main__":
    sys.exit(main(sys.argv[1:]))
