"""Behaviour-preserving whole-package source transformations (applied in memory through the model overlay).

Every transformation leaves the run-time behaviour of acryo unchanged, so a sound checker must give the same
verdict on the transformed tree as on the tree itself.  They are the "silent on code where the property holds" half
of the checker self-test; the other half (must-kill mutants) is in ``corpus``.

reformat        ast.unparse of every module (quotes, parentheses, line breaks, comments dropped)
rename_locals   every local variable (not parameters, not globals) of every function gets a new name
noop            a dead assignment is inserted at the top of every function body
hoist           the first compound argument of a call in a simple statement is evaluated into a temporary first
"""
from __future__ import annotations

import ast
import os


def _sources(root: str) -> dict[str, str]:
    out = {}
    base = os.path.join(root, "acryo")
    for dp, dn, fn in os.walk(base):
        dn[:] = [d for d in dn if d != "__pycache__"]
        for f in fn:
            if f.endswith(".py"):
                p = os.path.join(dp, f)
                with open(p, encoding="utf-8") as fh:
                    out[os.path.relpath(p, root)] = fh.read()
    return out


def reformat(tree: ast.Module) -> ast.Module:
    return tree


class _Bound(ast.NodeVisitor):
    def __init__(self):
        self.stored: set[str] = set()
        self.params: set[str] = set()
        self.excluded: set[str] = set()
        self.has_class = False

    def visit_Name(self, n):
        if isinstance(n.ctx, (ast.Store, ast.Del)):
            self.stored.add(n.id)

    def visit_arg(self, n):
        self.params.add(n.arg)

    def visit_Global(self, n):
        self.excluded.update(n.names)

    visit_Nonlocal = visit_Global

    def visit_ClassDef(self, n):
        self.has_class = True
        self.generic_visit(n)

    def visit_ExceptHandler(self, n):
        if n.name:
            self.excluded.add(n.name)
        self.generic_visit(n)

    def visit_Import(self, n):
        for a in n.names:
            self.excluded.add((a.asname or a.name).split(".")[0])

    visit_ImportFrom = visit_Import

    def visit_FunctionDef(self, n):
        self.excluded.add(n.name)
        self.generic_visit(n)

    visit_AsyncFunctionDef = visit_FunctionDef

    def visit_MatchAs(self, n):
        if n.name:
            self.excluded.add(n.name)
        self.generic_visit(n)


class _Renamer(ast.NodeTransformer):
    def __init__(self, names, suffix):
        self.names = names
        self.suffix = suffix

    def visit_Name(self, n):
        if n.id in self.names:
            return ast.copy_location(ast.Name(id=n.id + self.suffix, ctx=n.ctx), n)
        return n


def rename_locals(tree: ast.Module, suffix: str = "_rn") -> ast.Module:
    def outer_functions(body):
        for st in body:
            if isinstance(st, (ast.FunctionDef, ast.AsyncFunctionDef)):
                yield st
            elif isinstance(st, ast.ClassDef):
                yield from outer_functions(st.body)
            elif isinstance(st, (ast.If, ast.Try)):
                for sub in ast.iter_child_nodes(st):
                    if isinstance(sub, ast.stmt):
                        yield from outer_functions([sub])

    for fn in outer_functions(tree.body):
        b = _Bound()
        for st in fn.body:
            b.visit(st)
        b.visit(fn.args)
        if b.has_class:
            continue
        names = {n for n in b.stored if n not in b.params and n not in b.excluded and not (n.startswith("__") and n.endswith("__"))}
        if names:
            r = _Renamer(names, suffix)
            fn.body = [r.visit(st) for st in fn.body]
    return tree


def noop(tree: ast.Module) -> ast.Module:
    for n in ast.walk(tree):
        if isinstance(n, (ast.FunctionDef, ast.AsyncFunctionDef)):
            i = 0
            if n.body and isinstance(n.body[0], ast.Expr) and isinstance(n.body[0].value, ast.Constant) and isinstance(n.body[0].value.value, str):
                i = 1
            st = ast.parse("_verif_noop = None").body[0]
            n.body.insert(i, st)
    return tree


_SIMPLE = (ast.Name, ast.Constant, ast.Attribute)


def hoist(tree: ast.Module) -> ast.Module:
    counter = [0]

    def pure_prefix(call: ast.Call, upto: int) -> bool:
        def simple(e):
            if isinstance(e, ast.Name) or isinstance(e, ast.Constant):
                return True
            if isinstance(e, ast.Attribute):
                return simple(e.value)
            return False

        if not simple(call.func):
            return False
        return all(simple(a) for a in call.args[:upto])

    def rewrite_body(body):
        out = []
        for st in body:
            for f in ("body", "orelse", "finalbody"):
                if hasattr(st, f) and isinstance(getattr(st, f), list) and not isinstance(st, (ast.ClassDef,)):
                    setattr(st, f, rewrite_body(getattr(st, f)))
            if isinstance(st, ast.Try):
                for h in st.handlers:
                    h.body = rewrite_body(h.body)
            if isinstance(st, ast.With):
                pass
            done = False
            if isinstance(st, (ast.Assign, ast.Return, ast.Expr)) and isinstance(getattr(st, "value", None), ast.Call):
                call = st.value
                for i, a in enumerate(call.args):
                    if isinstance(a, ast.Starred):
                        break
                    if isinstance(a, (ast.BinOp,)) and not any(isinstance(x, (ast.NamedExpr, ast.Yield, ast.Await, ast.Lambda)) for x in ast.walk(a)):
                        if pure_prefix(call, i):
                            counter[0] += 1
                            tmp = f"_verif_tmp{counter[0]}"
                            pre = ast.Assign(targets=[ast.Name(id=tmp, ctx=ast.Store())], value=a, lineno=st.lineno, col_offset=st.col_offset)
                            call.args[i] = ast.Name(id=tmp, ctx=ast.Load())
                            out.append(pre)
                            done = True
                        break
            out.append(st)
        return out

    for n in ast.walk(tree):
        if isinstance(n, (ast.FunctionDef, ast.AsyncFunctionDef)):
            n.body = rewrite_body(n.body)
    return tree


def swap_if_else(tree: ast.Module) -> ast.Module:
    """``if c: A else: B``  ->  ``if not c: B else: A`` (only plain if/else, no elif chains)."""
    for n in ast.walk(tree):
        if isinstance(n, ast.If) and n.orelse and not (len(n.orelse) == 1 and isinstance(n.orelse[0], ast.If)):
            n.test = ast.UnaryOp(op=ast.Not(), operand=n.test)
            n.body, n.orelse = n.orelse, n.body
    return tree


def augassign(tree: ast.Module) -> ast.Module:
    """``x = x + e`` -> ``x += e`` is NOT behaviour preserving for arrays (in-place); the other direction is unsafe too when x is aliased.
    Only plain local names bound to numbers are safe in general, which we cannot know: so this rewrites only `name += const` <-> `name = name + const`."""
    class T(ast.NodeTransformer):
        def visit_AugAssign(self, n):
            if isinstance(n.target, ast.Name) and isinstance(n.value, ast.Constant) and isinstance(n.value.value, (int, float)):
                return ast.copy_location(ast.Assign(targets=[ast.Name(id=n.target.id, ctx=ast.Store())],
                                                    value=ast.BinOp(left=ast.Name(id=n.target.id, ctx=ast.Load()), op=n.op, right=n.value)), n)
            return n
    return T().visit(tree)


def _pure(e: ast.expr) -> bool:
    for x in ast.walk(e):
        if isinstance(x, (ast.Call, ast.Yield, ast.YieldFrom, ast.Await, ast.NamedExpr, ast.Lambda, ast.ListComp, ast.GeneratorExp, ast.DictComp, ast.SetComp)):
            return False
    return True


def reorder(tree: ast.Module) -> ast.Module:
    """Swap adjacent independent simple assignments ``a = e1; b = e2`` (pure right-hand sides, no mutual use)."""
    def names(e, ctx):
        return {x.id for x in ast.walk(e) if isinstance(x, ast.Name) and isinstance(x.ctx, ctx)}

    def ok(st):
        return isinstance(st, ast.Assign) and len(st.targets) == 1 and isinstance(st.targets[0], ast.Name) and _pure(st.value)

    def visit(body):
        i = 0
        while i + 1 < len(body):
            a, b = body[i], body[i + 1]
            if ok(a) and ok(b):
                ta, tb = a.targets[0].id, b.targets[0].id
                if ta != tb and ta not in names(b.value, ast.Load) and tb not in names(a.value, ast.Load):
                    body[i], body[i + 1] = b, a
                    i += 2
                    continue
            i += 1
        for st in body:
            for f in ("body", "orelse", "finalbody"):
                sub = getattr(st, f, None)
                if isinstance(sub, list) and sub and isinstance(sub[0], ast.stmt):
                    visit(sub)
            if isinstance(st, ast.Try):
                for h in st.handlers:
                    visit(h.body)

    visit(tree.body)
    return tree


def early_exit(tree: ast.Module) -> ast.Module:
    """``if c: A(exits) else: B`` -> ``if c: A`` followed by B;  ``if c: A else: B(exits)`` -> ``if not c: B`` followed by A (guard clauses instead of nesting)."""
    EXIT = (ast.Return, ast.Raise, ast.Continue, ast.Break)

    def exits(b):
        return bool(b) and isinstance(b[-1], EXIT)

    def visit(body):
        out = []
        for st in body:
            for f in ("body", "orelse", "finalbody"):
                sub = getattr(st, f, None)
                if isinstance(sub, list) and sub and isinstance(sub[0], ast.stmt) and not isinstance(st, (ast.ClassDef, ast.FunctionDef, ast.AsyncFunctionDef)):
                    setattr(st, f, visit(sub))
            if isinstance(st, ast.Try):
                for h in st.handlers:
                    h.body = visit(h.body)
            if isinstance(st, ast.If) and st.orelse and not (len(st.orelse) == 1 and isinstance(st.orelse[0], ast.If)):
                if exits(st.body):
                    rest, st.orelse = st.orelse, []
                    out.append(st)
                    out.extend(rest)
                    continue
                if exits(st.orelse):
                    st.test = ast.UnaryOp(op=ast.Not(), operand=st.test)
                    rest, st.body, st.orelse = st.body, st.orelse, []
                    out.append(st)
                    out.extend(rest)
                    continue
            out.append(st)
        return out

    for n in ast.walk(tree):
        if isinstance(n, (ast.FunctionDef, ast.AsyncFunctionDef)):
            n.body = visit(n.body)
    return tree


TRANSFORMS = {"early_exit": early_exit, "reformat": reformat, "rename_locals": rename_locals, "noop": noop, "hoist": hoist, "swap_if_else": swap_if_else, "augassign": augassign,
              "reorder": reorder}


def overlay(root: str, name: str) -> dict[str, str]:
    fn = TRANSFORMS[name]
    ov = {}
    for rel, src in _sources(root).items():
        tree = ast.parse(src)
        tree = fn(tree)
        ast.fix_missing_locations(tree)
        new = ast.unparse(tree)
        compile(new, rel, "exec")
        ov[rel] = new + "\n"
    return ov
