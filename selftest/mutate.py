"""In-memory mutants: whitespace-insensitive single-site source edits analysed through the
model overlay (nothing is written to disk, /repo is never touched)."""
from __future__ import annotations

import ast
import os
import re


class Stale(Exception):
    """The snippet to mutate is not present in the current tree."""


def _rx(snippet: str) -> re.Pattern:
    toks = re.findall(r"\w+|\S", snippet)
    out = []
    for i, t in enumerate(toks):
        out.append(re.escape(t))
    # allow arbitrary whitespace (incl. newlines) between tokens, but keep word boundaries
    pat = ""
    for i, t in enumerate(toks):
        if i:
            prev = toks[i - 1]
            if re.match(r"\w", prev[-1]) and re.match(r"\w", t[0]):
                pat += r"\s+"
            else:
                pat += r"\s*"
        if re.match(r"\w", t[0]):
            pat += r"(?<!\w)" + re.escape(t) + r"(?!\w)"
        else:
            pat += re.escape(t)
    return re.compile(pat)


def edit(source: str, old: str, new: str, within: str | None = None, occurrence: int = 0) -> str:
    """Replace the ``occurrence``-th match of ``old`` (whitespace-insensitive) by ``new``.
    ``within``: restrict to the body of the def/class with this (dotted) name."""
    lo, hi = 0, len(source)
    if within:
        tree = ast.parse(source)
        target = None
        parts = within.split(".")

        def find(body, parts):
            for n in body:
                if isinstance(n, (ast.FunctionDef, ast.AsyncFunctionDef, ast.ClassDef)) and n.name == parts[0]:
                    if len(parts) == 1:
                        return n
                    r = find(n.body, parts[1:])
                    if r is not None:
                        return r
            return None

        cands = []

        def find_all(body, parts):
            for n in body:
                if isinstance(n, (ast.FunctionDef, ast.AsyncFunctionDef, ast.ClassDef)) and n.name == parts[0]:
                    if len(parts) == 1:
                        cands.append(n)
                    else:
                        find_all(n.body, parts[1:])

        find_all(tree.body, parts)
        if not cands:
            raise Stale(f"scope {within} not found")
        target = cands[-1]
        lines = source.splitlines(keepends=True)
        start = target.lineno - 1
        if getattr(target, "decorator_list", None):
            start = min(start, min(d.lineno for d in target.decorator_list) - 1)
        lo = sum(len(l) for l in lines[:start])
        hi = sum(len(l) for l in lines[: target.end_lineno])
    rx = _rx(old)
    ms = list(rx.finditer(source, lo, hi))
    if len(ms) <= occurrence:
        raise Stale(f"snippet not found: {old!r} in {within or 'module'}")
    m = ms[occurrence]
    out = source[: m.start()] + new + source[m.end():]
    try:
        ast.parse(out)
    except SyntaxError as e:
        raise Stale(f"mutant does not parse: {e}")
    return out


def overlay_for(root: str, relpath: str, old: str, new: str, within: str | None = None, occurrence: int = 0,
                base_overlay: dict | None = None) -> dict:
    ov = dict(base_overlay or {})
    if relpath in ov:
        src = ov[relpath]
    else:
        with open(os.path.join(root, relpath), encoding="utf-8") as f:
            src = f.read()
    ov[relpath] = edit(src, old, new, within, occurrence)
    return ov
