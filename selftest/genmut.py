"""Generated mutants: every applicable small edit inside the functions a property is anchored in.

    python -m selftest.genmut PROP [--max N] [--list-survivors]

Operators (one site per mutant):  + <-> -,  * <-> /,  // -> /,  < <-> <=,  > <-> >=,  == <-> !=,  small integer constant n -> n+1,
0.5 -> 0.0,  -x -> x,  f(a, b, ...) -> f(b, a, ...) for two different plain-name arguments,  x.inv() -> x,  `not c` -> c,
constant subscript [k] -> [(k+1) % 3],  x[..., ::-1] -> x.

A surviving mutant is not necessarily a property violation (the edit may be irrelevant to the property or equivalent); the list of
survivors shows which statements of the anchored functions no obligation looks at.  Used as a development tool and, capped, as a
sensitivity figure in the thorough tier's evidence.
"""
from __future__ import annotations

import ast
import copy
import importlib
import os
import random
import sys
from concurrent.futures import ProcessPoolExecutor

HERE = os.path.dirname(os.path.abspath(__file__))
sys.path.insert(0, os.path.dirname(HERE))


def anchors_of(prop: str) -> list[str]:
    mod = importlib.import_module(f"sa.props.{prop}")
    out = list(getattr(mod, "ANCHORS", []))
    for extra in ("ENTRY", "WRITEBACK", "SITES", "WEIGHTS"):
        v = getattr(mod, extra, None)
        if isinstance(v, (list, tuple)):
            out += [x for x in v if isinstance(x, str) and "::" in x]
    return sorted(set(out))


def _find_func(tree: ast.Module, qual: str):
    name = qual.split("@")[0]
    parts = name.split(".")
    body = tree.body
    node = None
    for i, p in enumerate(parts):
        found = None
        for st in _flat(body):
            if isinstance(st, (ast.FunctionDef, ast.AsyncFunctionDef, ast.ClassDef)) and st.name == p:
                found = st  # last definition wins (overloads, setters come later)
                if "@setter" in qual and isinstance(st, ast.FunctionDef) and any("setter" in ast.unparse(d) for d in st.decorator_list):
                    break
        if found is None:
            return None
        node = found
        body = found.body
    return node


def _flat(body):
    for st in body:
        yield st
        if isinstance(st, (ast.If, ast.Try)):
            for f in ("body", "orelse", "finalbody"):
                yield from _flat(getattr(st, f, []) or [])


SWAP_BIN = {ast.Add: ast.Sub, ast.Sub: ast.Add, ast.Mult: ast.Div, ast.Div: ast.Mult, ast.FloorDiv: ast.Div}
SWAP_CMP = {ast.Lt: ast.LtE, ast.LtE: ast.Lt, ast.Gt: ast.GtE, ast.GtE: ast.Gt, ast.Eq: ast.NotEq, ast.NotEq: ast.Eq}


def sites(fn: ast.AST):
    """Yield (node_index, operator name, description) for every applicable mutation inside ``fn``; node_index is the position in ast.walk order."""
    for i, n in enumerate(ast.walk(fn)):
        if isinstance(n, ast.BinOp) and type(n.op) in SWAP_BIN:
            if isinstance(n.op, ast.Mod) or (isinstance(n.left, ast.Constant) and isinstance(n.left.value, str)):
                continue
            yield i, "binop", f"{ast.unparse(n)[:60]}: {type(n.op).__name__} -> {SWAP_BIN[type(n.op)].__name__}"
        elif isinstance(n, ast.Compare) and len(n.ops) == 1 and type(n.ops[0]) in SWAP_CMP:
            yield i, "cmp", f"{ast.unparse(n)[:60]}: {type(n.ops[0]).__name__} -> {SWAP_CMP[type(n.ops[0])].__name__}"
        elif isinstance(n, ast.Constant) and isinstance(n.value, int) and not isinstance(n.value, bool) and -4 <= n.value <= 4:
            yield i, "const", f"constant {n.value} -> {n.value + 1}"
        elif isinstance(n, ast.Constant) and isinstance(n.value, float) and n.value == 0.5:
            yield i, "const", "constant 0.5 -> 0.0"
        elif isinstance(n, ast.UnaryOp) and isinstance(n.op, ast.USub) and not isinstance(n.operand, ast.Constant):
            yield i, "neg", f"{ast.unparse(n)[:60]}: drop the minus"
        elif isinstance(n, ast.UnaryOp) and isinstance(n.op, ast.Not):
            yield i, "not", f"{ast.unparse(n)[:60]}: drop the not"
        elif isinstance(n, ast.Call):
            if len(n.args) >= 2 and isinstance(n.args[0], ast.Name) and isinstance(n.args[1], ast.Name) and n.args[0].id != n.args[1].id:
                yield i, "swapargs", f"{ast.unparse(n)[:60]}: swap the first two arguments"
            if isinstance(n.func, ast.Attribute) and n.func.attr in ("inv", "conj") and not n.args:
                yield i, "dropcall", f"{ast.unparse(n)[:60]}: drop .{n.func.attr}()"
        elif isinstance(n, ast.Subscript):
            if isinstance(n.slice, ast.Constant) and isinstance(n.slice.value, int) and 0 <= n.slice.value <= 2 and isinstance(n.ctx, ast.Load):
                yield i, "index", f"{ast.unparse(n)[:60]}: index {n.slice.value} -> {(n.slice.value + 1) % 3}"
            elif "::-1" in ast.unparse(n.slice) and isinstance(n.ctx, ast.Load):
                yield i, "reverse", f"{ast.unparse(n)[:60]}: drop the reversal"


def apply(fn: ast.AST, index: int, op: str) -> bool:
    for i, n in enumerate(ast.walk(fn)):
        if i != index:
            continue
        if op == "binop":
            n.op = SWAP_BIN[type(n.op)]()
        elif op == "cmp":
            n.ops = [SWAP_CMP[type(n.ops[0])]()]
        elif op == "const":
            n.value = 0.0 if isinstance(n.value, float) else n.value + 1
        elif op in ("neg", "not"):
            _replace(fn, n, n.operand)
        elif op == "swapargs":
            n.args[0], n.args[1] = n.args[1], n.args[0]
        elif op == "dropcall":
            _replace(fn, n, n.func.value)
        elif op == "index":
            n.slice = ast.Constant(value=(n.slice.value + 1) % 3)
        elif op == "reverse":
            _replace(fn, n, n.value)
        return True
    return False


def _replace(root, old, new):
    for p in ast.walk(root):
        for f, v in ast.iter_fields(p):
            if v is old:
                setattr(p, f, new)
                return
            if isinstance(v, list):
                for j, e in enumerate(v):
                    if e is old:
                        v[j] = new
                        return


def enumerate_mutants(prop: str, root: str = "/repo"):
    out = []
    for a in anchors_of(prop):
        rel, qual = a.split("::")
        path = os.path.join(root, rel)
        if not os.path.exists(path):
            continue
        tree = ast.parse(open(path, encoding="utf-8").read())
        fn = _find_func(tree, qual)
        if fn is None or isinstance(fn, ast.ClassDef):
            continue
        for idx, op, desc in sites(fn):
            out.append({"prop": prop, "rel": rel, "qual": qual, "index": idx, "op": op, "desc": desc, "line": getattr(fn, "lineno", 0)})
    return out


def _run(job):
    m, root = job
    from check import decide_property as run_property
    path = os.path.join(root, m["rel"])
    tree = ast.parse(open(path, encoding="utf-8").read())
    fn = _find_func(tree, m["qual"])
    if fn is None or not apply(fn, m["index"], m["op"]):
        return dict(m, outcome="stale")
    ast.fix_missing_locations(tree)
    try:
        src = ast.unparse(tree) + "\n"
        compile(src, m["rel"], "exec")
    except Exception:
        return dict(m, outcome="stale")
    try:
        rep = run_property(m["prop"], "quick", root, overlay={m["rel"]: src})
    except Exception as e:
        return dict(m, outcome="crash", detail=repr(e)[:200])
    r, u = rep.new_refuted(), rep.undecided()
    if r:
        return dict(m, outcome="refuted", detail=f"{r[0].rule} {r[0].where}: {r[0].desc[:80]}")
    if u or rep.errors:
        return dict(m, outcome="flagged", detail=(f"{u[0].rule} {u[0].where}: {u[0].desc[:80]}" if u else str(rep.errors[0])[:120]))
    return dict(m, outcome="silent")


def run(prop: str, root: str = "/repo", cap: int | None = None, seed: int = 0, workers: int = 16):
    ms = enumerate_mutants(prop, root)
    if cap is not None and len(ms) > cap:
        rnd = random.Random(seed)
        ms = sorted(rnd.sample(ms, cap), key=lambda m: (m["rel"], m["qual"], m["index"]))
    with ProcessPoolExecutor(workers) as ex:
        return list(ex.map(_run, [(m, root) for m in ms], chunksize=4))


def main(argv):
    import argparse
    ap = argparse.ArgumentParser()
    ap.add_argument("prop")
    ap.add_argument("--max", type=int, default=None)
    ap.add_argument("--list-survivors", action="store_true")
    ns = ap.parse_args(argv)
    res = run(ns.prop, cap=ns.max)
    from collections import Counter
    c = Counter(r["outcome"] for r in res)
    print(f"{ns.prop}: {len(res)} generated mutants in {len(anchors_of(ns.prop))} anchored functions: {dict(c)}")
    if ns.list_survivors:
        byfn = {}
        for r in res:
            if r["outcome"] == "silent":
                byfn.setdefault(f"{r['rel']}::{r['qual']}", []).append(r)
        for k, v in byfn.items():
            print(f"  {k}: {len(v)} survivors")
            for r in v:
                print(f"      [{r['op']}] {r['desc']}")
        for r in res:
            if r["outcome"] == "crash":
                print("  CRASH", r["rel"], r["qual"], r["desc"], r.get("detail"))
    return 0


if __name__ == "__main__":
    sys.exit(main(sys.argv[1:]))
