"""Seeded changes (seeded/<id>/patch.diff, produced by independent sub-agents and confirmed to break a property while the pinned suite passes) applied
*in memory* to the current tree: each becomes an overlay {relpath: patched source}.  A patch whose context no longer matches the tree is stale."""
from __future__ import annotations

import glob
import json
import os
import re

HERE = os.path.dirname(os.path.abspath(__file__))
SEEDED = os.path.join(os.path.dirname(HERE), "seeded")


class PatchStale(Exception):
    pass


def parse(diff: str) -> dict[str, list[tuple[int, list[str]]]]:
    files: dict[str, list] = {}
    cur = None
    hunk = None
    for ln in diff.splitlines():
        if ln.startswith("diff --git"):
            cur = None
            continue
        if ln.startswith("+++ "):
            path = ln[4:].strip()
            if path.startswith("b/"):
                path = path[2:]
            cur = files.setdefault(path, [])
            continue
        if ln.startswith("--- ") or ln.startswith("index ") or ln.startswith("new file") or ln.startswith("deleted file") or ln.startswith("similarity"):
            continue
        m = re.match(r"^@@ -(\d+)(?:,(\d+))? \+(\d+)(?:,(\d+))? @@", ln)
        if m and cur is not None:
            hunk = (int(m.group(1)), [])
            cur.append(hunk)
            continue
        if hunk is not None and cur is not None and (ln[:1] in (" ", "+", "-") or ln == ""):
            hunk[1].append(ln if ln else " ")
        elif ln.startswith("\\"):
            continue
    return files


def apply_to(src: str, hunks: list[tuple[int, list[str]]]) -> str:
    lines = src.split("\n")
    out: list[str] = []
    pos = 0  # index into lines
    for start, body in hunks:
        old = [b[1:] for b in body if b[:1] in (" ", "-")]
        # locate the old block: at the stated position, else search nearby (line numbers drift when earlier files changed)
        cand = start - 1
        where = None
        for delta in sorted(range(-80, 81), key=abs):
            i = cand + delta
            if i < pos or i + len(old) > len(lines):
                continue
            if [l.rstrip() for l in lines[i:i + len(old)]] == [l.rstrip() for l in old]:
                where = i
                break
        if where is None:
            raise PatchStale("context of a hunk does not match the current tree")
        out.extend(lines[pos:where])
        for b in body:
            if b[:1] == " ":
                out.append(lines[where])
                where += 1
            elif b[:1] == "-":
                where += 1
            elif b[:1] == "+":
                out.append(b[1:])
        pos = where
    out.extend(lines[pos:])
    return "\n".join(out)


def seeds_for(prop: str | None = None) -> list[dict]:
    res = []
    for m in sorted(glob.glob(os.path.join(SEEDED, "*", "meta.json"))):
        d = json.load(open(m))
        sid = os.path.basename(os.path.dirname(m))
        res.append({"id": sid, "property": d.get("property"), "title": d.get("title"), "dir": os.path.dirname(m), "kind": d.get("kind", "breaking")})
    return res


def overlay_of(seed_dir: str, root: str = "/repo") -> dict[str, str]:
    diff = open(os.path.join(seed_dir, "patch.diff"), encoding="utf-8").read()
    ov = {}
    for rel, hunks in parse(diff).items():
        p = os.path.join(root, rel)
        if not os.path.exists(p):
            raise PatchStale(f"{rel} no longer exists")
        src = open(p, encoding="utf-8").read()
        new = apply_to(src, hunks)
        try:
            compile(new, rel, "exec")
        except SyntaxError as e:
            raise PatchStale(f"patched {rel} does not parse: {e}")
        ov[rel] = new
    return ov
