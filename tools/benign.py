#!/venv/bin/python
"""tools/benign.py [PROP ...] -- run every check on the behaviour-preserving transformations of the whole package."""
import sys, os
sys.path.insert(0, os.path.dirname(os.path.dirname(os.path.abspath(__file__))))
from concurrent.futures import ProcessPoolExecutor
from selftest.transforms import TRANSFORMS, overlay
from check import decide_property as run_property, PROPS

def one(job):
    prop, tname = job
    try:
        ov = overlay('/repo', tname)
        rep = run_property(prop, 'quick', '/repo', overlay=ov)
        bad = [(o.status, o.rule, o.where, o.desc[:90], o.detail[:160]) for o in rep.obligations if o.status != 'discharged']
        return prop, tname, len(rep.new_refuted()), len(rep.undecided()), rep.errors, bad
    except Exception as e:
        import traceback
        return prop, tname, -1, -1, [traceback.format_exc()[-600:]], []

if __name__ == '__main__':
    props = [a for a in sys.argv[1:] if a.startswith('C')] or [p for p in PROPS if os.path.exists(f'/verif/sa/props/{p}.py')]
    tn = [a for a in sys.argv[1:] if a in TRANSFORMS] or list(TRANSFORMS)
    jobs = [(p, t) for p in props for t in tn]
    with ProcessPoolExecutor(16) as ex:
        for prop, tname, r, u, errs, bad in ex.map(one, jobs):
            print(f"{prop} {tname}: refuted={r} undecided={u} errors={len(errs)}")
            for b in bad:
                print("    ", b)
            for e in errs:
                print("    ERR", str(e)[:400])
