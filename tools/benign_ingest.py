#!/venv/bin/python
"""tools/benign_ingest.py --round N --src DIR [--log FIRSTRUN.log] PROP... -- confirm the behaviour-preserving refactors delivered in DIR/PROP/change_K in a scratch
worktree of /repo HEAD (patch applies, pinned suite passes on the changed tree, equiv.py prints the same output on the unchanged and on the changed tree) and keep the
confirmed ones as /verif/seeded_benign/PROP-b<K + 3*(N-1)>/{patch.diff, equiv.py, meta.json}."""
import json, os, re, shutil, subprocess, sys, tempfile
from concurrent.futures import ThreadPoolExecutor
VERIF = os.path.dirname(os.path.dirname(os.path.abspath(__file__)))


def sh(cmd, **kw):
    return subprocess.run(cmd, shell=True, capture_output=True, text=True, **kw)


def confirm(src):
    d = tempfile.mkdtemp(prefix="bconf_")
    wt = os.path.join(d, "wt")
    res = {}
    try:
        sh(f"git -C /repo worktree add --detach -f {wt} HEAD")
        env = dict(os.environ, PYTHONPATH=wt, OMP_NUM_THREADS="2")
        # some scripts assert the location of the sub-agent's scratch worktree: point them at this one
        eq = os.path.join(d, "equiv.py")
        txt = open(os.path.join(src, "equiv.py"), encoding="utf-8").read()
        import re as _re
        txt = _re.sub(r"/tmp/seed/C\d\d(?=[/\"'])", wt, txt)
        open(eq, "w", encoding="utf-8").write(txt)
        src_eq = eq
        r0 = sh(f"/venv/bin/python {src_eq}", cwd=wt, env=env, timeout=3000)
        a = sh(f"git -C {wt} apply {src}/patch.diff")
        res["applies"] = a.returncode == 0
        if a.returncode == 0:
            r1 = sh(f"/venv/bin/python {src_eq}", cwd=wt, env=env, timeout=3000)
            res["equiv_exit"] = (r0.returncode, r1.returncode)
            res["equiv_identical"] = r0.returncode == 0 and r1.returncode == 0 and r0.stdout == r1.stdout and len(r0.stdout) > 0
            res["equiv_lines"] = r0.stdout.count("\n")
            t = sh("/venv/bin/python -m pytest -q -p no:cacheprovider --timeout=900 tests 2>&1 | grep -E 'passed|failed|error' | tail -1", cwd=wt, env=env)
            res["tests"] = t.stdout.strip()
    except Exception as e:
        res["error"] = repr(e)[:200]
    finally:
        sh(f"git -C /repo worktree remove --force {wt}")
        shutil.rmtree(d, ignore_errors=True)
    res["confirmed"] = bool(res.get("applies") and res.get("equiv_identical") and "passed" in res.get("tests", "") and "failed" not in res.get("tests", "") and
                            "error" not in res.get("tests", ""))
    return res


args = sys.argv[1:]
ROUND, SRC, LOG = 2, "/tmp/seed/out5", None
while args and args[0].startswith("--"):
    if args[0] == "--round":
        ROUND = int(args[1]); args = args[2:]
    elif args[0] == "--src":
        SRC = args[1]; args = args[2:]
    elif args[0] == "--log":
        LOG = args[1]; args = args[2:]
first = {}
if LOG and os.path.exists(LOG):
    for ln in open(LOG):
        m = re.match(r"^(C\d\d-b\d+) :: (.*)$", ln)
        if m:
            rest = m.group(2).strip()
            hits = re.findall(r"(C\d\d) exit (\d)", rest)
            first[m.group(1)] = {"outcome": "silent", "by": []} if rest == "silent" else \
                {"outcome": "violation" if any(h[1] == "1" for h in hits) else "flagged", "by": sorted({h[0] for h in hits})}
jobs = []
for prop in args:
    for k in (1, 2, 3):
        src = f"{SRC}/{prop}/change_{k}"
        if all(os.path.isfile(os.path.join(src, f)) for f in ("patch.diff", "equiv.py", "meta.json")):
            sid = f"{prop}-b{k + 3 * (ROUND - 1)}"
            if not os.path.exists(os.path.join(VERIF, "seeded_benign", sid, "meta.json")):
                jobs.append((sid, src))
with ThreadPoolExecutor(6) as ex:
    for (sid, src), res in zip(jobs, ex.map(lambda j: confirm(j[1]), jobs)):
        print(sid, "confirmed" if res["confirmed"] else "REJECTED", {k: res.get(k) for k in ("applies", "equiv_identical", "equiv_lines", "tests", "error")}, flush=True)
        if not res["confirmed"]:
            continue
        dst = os.path.join(VERIF, "seeded_benign", sid)
        os.makedirs(dst, exist_ok=True)
        for f in ("patch.diff", "equiv.py"):
            shutil.copy(os.path.join(src, f), dst)
        meta = json.load(open(os.path.join(src, "meta.json")))
        meta["round"] = ROUND
        meta["confirmation"] = {"by": "tools/benign_ingest.py (scratch worktree of /repo HEAD)", "equiv_identical": True, "equiv_lines": res["equiv_lines"],
                                "tests_changed_tree": res["tests"]}
        if sid in first:
            meta["checks_as_first_run"] = first[sid]
        json.dump(meta, open(os.path.join(dst, "meta.json"), "w"), indent=1)
