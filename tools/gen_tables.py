#!/venv/bin/python
"""tools/gen_tables.py -- regenerate the generated tables of DESIGN.md (between the <!-- BEGIN/END name --> markers) from known_findings.jsonl,
seeded/*/meta.json and seeded/RESULTS.json."""
import json, os, re, glob

V = os.path.dirname(os.path.dirname(os.path.abspath(__file__)))


def defects_table():
    rows = ["| defect | property | status | commit | what failed |", "|---|---|---|---|---|"]
    seen = set()
    for l in open(os.path.join(V, "known_findings.jsonl")):
        l = l.strip()
        if not l:
            continue
        d = json.loads(l)
        key = (d.get("defect"), d["property"], d["status"])
        if key in seen:
            continue
        seen.add(key)
        rows.append(f"| {d.get('defect', '')} | {d['property']} | {d['status']} | {d.get('commit', '—')} | {d['what'][:260].replace('|', '/')} |")
    return "\n".join(rows)


def seeded_table():
    res = {r["seed"]: r for r in json.load(open(os.path.join(V, "seeded", "RESULTS.json")))}
    rows = ["| seed | round | change (function) | first run of the checks | checks that report it now (exit) |", "|---|---|---|---|---|"]
    for m in sorted(glob.glob(os.path.join(V, "seeded", "*", "meta.json"))):
        sid = os.path.basename(os.path.dirname(m))
        d = json.load(open(m))
        fr = d.get("checks_as_first_run", {})
        first = fr.get("outcome", "?") + (" (" + ", ".join(fr.get("by", [])) + ")" if fr.get("by") else "")
        now = res.get(sid, {}).get("caught_by", {})
        nowt = ", ".join(f"{p} ({v['exit']})" for p, v in sorted(now.items())) or "**missed**"
        rows.append(f"| {sid} | {d.get('round', 1)} | {str(d.get('title', ''))[:150].replace('|', '/')} (`{str(d.get('function', ''))[:60]}`) | {first} | {nowt} |")
    return "\n".join(rows)


def benign_table():
    base = os.path.join(V, "seeded_benign")
    res = {r["seed"]: r for r in json.load(open(os.path.join(base, "RESULTS.json")))} if os.path.exists(os.path.join(base, "RESULTS.json")) else {}
    rows = ["| refactor | round | kind | change (function) | first run of the checks | now |", "|---|---|---|---|---|---|"]
    for m in sorted(glob.glob(os.path.join(base, "*", "meta.json"))):
        sid = os.path.basename(os.path.dirname(m))
        d = json.load(open(m))
        fr = d.get("checks_as_first_run", {})
        first = fr.get("outcome", "?") + (" (" + ", ".join(fr.get("by", [])) + ")" if fr.get("by") else "")
        al = res.get(sid, {}).get("alarms", {})
        now = ", ".join(f"{p} (exit {v['exit']})" for p, v in sorted(al.items())) or "silent"
        rows.append(f"| {sid} | {d.get('round', 1)} | {d.get('refactor_kind', '')} | {str(d.get('title', ''))[:130].replace('|', '/')} (`{str(d.get('function', ''))[:50]}`) | {first} | {now} |")
    return "\n".join(rows)


def main():
    p = os.path.join(V, "DESIGN.md")
    s = open(p).read()
    for name, fn in (("defects", defects_table), ("seeded", seeded_table), ("benign", benign_table)):
        b, e = f"<!-- BEGIN {name} -->", f"<!-- END {name} -->"
        if b in s and e in s:
            s = s[: s.index(b) + len(b)] + "\n" + fn() + "\n" + s[s.index(e):]
    open(p, "w").write(s)


if __name__ == "__main__":
    main()
