#!/venv/bin/python
"""Regenerate /verif/MANIFEST.json from the per-property metadata below.
A property is claimed iff sa/props/<id>.py exists AND it has an entry in CLAIMED."""
import json
import os

HERE = os.path.dirname(os.path.dirname(os.path.abspath(__file__)))

BASELINE = ("cd /repo && /venv/bin/python -m pytest -ra -q -p no:cacheprovider --timeout=900 "
            "--continue-on-collection-errors")

COMMON_NOTE = ("Trusted base: Python's ast parser; the seed tables of the abstract domains (which names are nm / nm-per-pixel / "
               "pixels, which rotation maps which frame; DESIGN.md Appendix B); transfer tables for numpy/scipy/dask/polars callees. "
               "Decides only the structural clauses listed in DESIGN.md section 5 for this property; numerical clauses are listed as "
               "not decided in the evidence file. No statement about numpy/scipy/dask/polars internals. An obligation that is not discharged on the "
               "program as written is re-evaluated on behaviour-preserving views of it (private helpers, closures and lambda arguments inlined, comprehensions "
               "and append loops converted into each other, early exits and conditional expressions in a structured normal form; sa/views.py, each view "
               "validated with the pinned suite) and is refuted only if it fails on every view; calls are compared as parameter-to-argument bindings. Where a "
               "rule is about values touched only through comparisons or about which value reaches a sink, it is decided by representative / symbolic "
               "evaluation of the source by the checker's own interpreter (signs, constants, first-order terms; sa/domains) - the analysed program is never "
               "run. Structural rules report a violation when their construct is absent: deep restructurings of an "
               "anchored function can therefore be reported although behaviour is unchanged (measured on four rounds of behaviour-preserving refactors in "
               "DESIGN.md section 10.8; the refactors still reported are listed there). Besides the clauses of DESIGN.md section 5 the quick check carries the whole-tree "
               "rule families and semantic clauses added after the seeding rounds (DESIGN.md section 10.7 and Appendix C: ownership/aliasing, dask keys and per-block "
               "functions, forwarding, type cases, window/mesh coverage, ...), several of them shared between the properties whose code they protect. Genuine defects that were "
               "recorded rather than repaired are listed in /verif/known_findings.jsonl and printed as KNOWN-FINDING lines (C08: D30, C18: D32).")

CLAIMED = {
    "C01": dict(
        text="Static dataflow over the alignment entry points and the pose write-back: unit analysis (nm / pixel / nm-per-pixel) proves "
             "max_shifts and positions reach the models in pixels and the shift returns in nm exactly once; frame typing proves the "
             "shift is applied in the input molecule's own axes and the rotation composed internally; def-use proves the written "
             "features come from the same variables; call-graph routing proves every loader kind goes through the same write-back. "
             "All inputs are covered at once because the rule is about the code on every path; accuracy of the located peak is not decided.",
        technique="abstract interpretation over ast (units-of-measure + coordinate-frame domains), def-use and call-graph routing rules",
        ref="5 C01"),
    "C02": dict(
        text="Symbolic evaluation (affine normal forms with int/floor atoms) of the crop-window arithmetic proves, for every axis, "
             "centre, box size and spline order: new_center = center - x0, window length = box + 2*order + 1, margins, the padding identity "
             "slice.start - pad = z0 on each of the non-raising paths of make_slice_and_pad, that those paths never yield an empty slice and "
             "that the error is raised only without overlap (Farkas-style prover over path conditions, small-integer witnesses for refutations); "
             "a symbolic 4x4 matrix product proves compose_matrices = T(c) R T(-oc); frame/unit typing covers what the loader passes. "
             "Interpolated values are not decided.",
        technique="abstract interpretation over ast: affine-form domain with path conditions and inequality prover, symbolic matrix product, frame and unit typing, who-may-catch rule",
        ref="5 C02"),
    "C03": dict(
        text="Row-order provenance rules over every place where tasks, per-molecule arguments and results are paired (task-list "
             "construction of each loader kind, zip with var_kwarg rows, enumerate write-back, group zip), same-source rules for the "
             "registered image, a one-shot-iterable rule for LoaderGroup constructor sites, an aliasing-generator consumer rule, an "
             "effect analysis (stores/mutations closed over the call graph with fresh/alias tracking) proving derived loaders write nothing "
             "reachable from their source, maintain_order at every group_by, and a CFG must-pass-through guard before the image-id store. "
             "These are facts about code shape that hold for every molecule ordering and operation sequence; polars itself is trusted.",
        technique="order-provenance and same-source dataflow rules on ast, effect analysis over the resolved call graph, CFG must-pass-through",
        ref="5 C03"),
    "C05": dict(
        text="Symbolic evaluation of the whole refinement pipeline (integer peak, clipped refinement mesh, decode; coarse and up-sampled "
             "phase correlation) into affine forms with int/floor/ceil/round/min/max atoms and index-range facts, then an exact Fourier-Motzkin "
             "prover (integer tightening, min/max case split, assume-guarantee for the PCC refinement) shows |shift| <= max_shifts for every "
             "box shape, peak position, refined index and max_shifts >= 0; refutations carry a concrete witness assignment of the extracted "
             "forms. Array-shape tracking proves the ZNCC/NCC crop is symmetric, never empty and within range; an FFT-layout tag proves "
             "crop_by_max_shifts is only applied to FFT-ordered arrays; a def-use rule proves every nm->pixel conversion of max_shifts is "
             "normalised first. Finiteness inside the PCC up-sampled DFT is not decided. Added after seeding: the (Z)NCC and FSC landscapes divide only where the norm is positive (finite on constant data), and every refinement is clipped to the caller's own max_shifts.",
        technique="abstract interpretation over ast (affine forms + symbolic array shapes/origins/layouts), Fourier-Motzkin inequality prover, def-use rule",
        ref="5 C05"),
    "C06": dict(
        text="Flat-index codec rule: the loop nest that builds the candidate stacks is inferred from the source (which loop enumerates "
             "rotations, which templates, how masks are replicated) and every decoder of the flat arg-max index (model.align, model.fit, loader "
             "and group write-back) is checked to use // T for the rotation and % T for the template, where the modulus expression must denote "
             "the template count of the same model by def-use, on every path where several rotations are possible (the sentinel guard is "
             "proved for all T >= 1 with a witness otherwise); arg-max selection and equal-length zips are checked structurally; the rotation-set "
             "normaliser must yield rank-2 arrays on every path. Holds for every T, K and (j, k); whether the best score is the planted "
             "candidate is numerical and not decided.",
        technique="encoder/decoder agreement rule over loop nests and def-use chains (ast), guard proof with small-integer witnesses",
        ref="5 C06"),
    "C07": dict(
        text="A homogeneity/bilinear-form domain evaluates ncc, zncc, the per-shell FSC ratio and the window-normalised landscape to "
             "normal forms and recognises the Cauchy-Schwarz quotient B(x,y)/sqrt(B(x,x)B(y,y)) with one reducer (=> range [-1,1], value 1 on "
             "identical inputs), degree (0,0) (gain invariance), mean subtraction of both inputs (offset invariance) and symmetry; a sibling-slot "
             "rule evaluates all 12 model methods and compares the linear pre-processing chain of both operands (same wedge mask from the "
             "molecule's quaternion, same transform, callee of the matching family); the landscape geometry (zero displacement at shape//2, "
             "symmetric up-sampling mesh, mesh encoder/decoder identity) is proved on symbolic array shapes. Numerical equality with a reference "
             "Pearson coefficient is not decided. Added after seeding: the search-range padding of the (Z)NCC operand is neutral (its own mean) in landscape and alignment alike.",
        technique="abstract interpretation over ast (homogeneity / bilinear normal forms; symbolic array shapes and origins), sibling-slot agreement",
        ref="5 C07"),
    "C08": dict(
        text="The per-axis frequency grid recipe (offset subtracted from arange, shift applied) of the three grid builders is extracted and "
             "evaluated symbolically for both parity classes n=2k and n=2k+1: it must be FFT-ordered in both. A coordinate-frame type system with "
             "a box-shape scale tag evaluates the four mask builders: the plane normal dotted with the integer grid must be rotated W->M first and "
             "then divided by the shape. Structural rules cover the non-strict predicate (keeps DC, even), no-wedge/union/axis tables, and a "
             "flow-sensitive reaching-definitions analysis proves every accepted tilt spelling reaches the stored tilt model with no dead definition. "
             "Holds for every shape, orientation and tilt range; floating-point ties on a plane are not decided. The wedge predicate is decided on the nine sign patterns of the two signed distances. Known finding D30: the signed index grid is not closed under negation on even axes (Nyquist planes), so the mask is not even in k there.",
        technique="parity-split symbolic evaluation of grid recipes, frame/scale typing by abstract interpretation, reaching definitions on the CFG",
        ref="5 C08"),
    "C09": dict(
        text="Structural rules: every average is mean(axis=0) of the loader's own full stack (single, batch via the shared base method, group per "
             "loader under its key); a small boolean-mask domain evaluates random_splitter and proves the two returned masks are In(S) / NotIn(S) of "
             "the same index set; both half-averages index one stack with those two masks; an RNG-discipline rule (package-wide) proves randomness "
             "flows only from the seed argument through default_rng; the one-shot-iterable rule covers derived groups. Floating-point identity "
             "across chunkings is not decided. Added after seeding: per-group accumulators are created per iteration, the seed reaches the generator unchanged.",
        technique="syntax/dataflow rules on ast, boolean-mask abstract evaluation, package-wide RNG discipline rule",
        ref="5 C09"),
    "C10": dict(
        text="Schedule- and chunking-independence is decided by excluding the code patterns that make results schedule-dependent, for every "
             "interleaving at once: dask task entries are discovered from the source (33 sites), the task-reachable set is closed over the resolved "
             "call graph, and an effect analysis reports any field that task-reachable code both inserts into and iterates without an atomic "
             "snapshot or lock; cache-key classes must have __eq__ consistent with __hash__; the global default backend may only be written by "
             "functions no task reaches; callers of lru_cache functions may not mutate the cached result; declared lazy shapes must come from the "
             "same source as the produced shape (for landscapes: a probe of the same callee with the same arguments, otherwise a symbolic "
             "comparison with the shape each model family produces). No schedule is explored and bitwise floating-point equality across "
             "chunkings is not decided. Added after seeding: task-reachable code never mutates an argument in place, never writes a field of a shared model/tilt/backend object, no fixed dask key names, no random draw inside a task closure.",
        technique="call-graph reachability from discovered task entries + effect analysis (shared-state conflict rule), hash/eq rule, cached-result immutability rule, lazy-shape source rule with symbolic shapes",
        ref="5 C10"),
    "C11": dict(
        text="The coordinate-frame type system evaluates the axis properties (x,y,z are the images of columns 2,1,0), the internal rotation "
             "(component k paired with axis k, right composition), rotate_by (left composition with a world rotation, positions untouched), "
             "translate/translate_internal and records any frame clash; table rules check the Euler reader/writer conventions and both cross() "
             "copies; a CFG rule proves the stores to self in translate/rotate_by are unreachable when copy is true; the two-axes constructor "
             "must build the rotation row-wise (no whole-batch special case). Numerical round trips on SO(3) are not decided.",
        technique="frame typing by abstract interpretation over ast, convention-table rules, CFG reachability under a branch condition",
        ref="5 C11"),
    "C12": dict(
        text="Lock-step rules prove that every row-returning method either applies one selector to positions, quaternions and features or goes "
             "through the single to_dataframe/from_dataframe table with the same arguments, and that concatenations use one operand order for all "
             "three containers; a field-ownership rule (writers of _pos/_rotator/_features frozen in a table) and CFG must-pass-through checks prove "
             "the validation guards dominate the stores they protect (feature length, rotation count, reserved names, extra columns, validate-before-"
             "mutate in append); an effect analysis proves the non-mutating methods write nothing. Polars semantics are trusted. subset and concat are also decided by provenance (what reaches the constructor on every path), independent of how the lists are built.",
        technique="lock-step/same-source rules on ast, field-ownership table, CFG must-pass-through, effect analysis",
        ref="5 C12"),
    "C13": dict(
        text="Reader/writer table agreement only: the reserved column list, the key order and column indices written by to_dataframe, the default "
             "pos_cols + rot_cols of all four readers, the feature placement, the funnels (readers -> from_dataframe, writers -> to_dataframe) and the "
             "suffix sets of to_file/from_file are extracted from the source and must agree. This is a necessary condition of the round trip for "
             "every table; numerical precision, CSV formatting and the rotation-vector branch cut are not decided. The table built by to_dataframe is evaluated by the interpreter (dict literal or loops give the same abstract table); readers do not re-bind the frame, writers forward options unchanged.",
        technique="reader/writer table-agreement rule on ast (claimed for layout only)",
        ref="5 C13"),
    "C14": dict(
        text="The placement arithmetic of the simulator is evaluated to affine forms for both parity classes of the template size (n=2k, n=2k+1): "
             "start + output_center must equal pos/scale identically (3-D worker and projection worker), the output region must have the template's "
             "size, positions must be converted to pixels; structural rules prove the matrix is T(c) R^-1 T(-oc) with the inverse molecule rotation, "
             "that the triples from _prep_iterators are zipped unmodified (one task per molecule of every component), that all five result loops "
             "accumulate with += into a zero buffer (additivity, order independence) and that clipping uses the pads of make_slice_and_pad. "
             "Interpolation accuracy is not decided. Added after seeding: units of the 2-D simulator's virtual volume, collectors consumed after a loop are created before it.",
        technique="parity-split affine-form evaluation (abstract interpretation), unit typing, order/accumulation structural rules on ast",
        ref="5 C14"),
    "C15": dict(
        text="Affine-form evaluation of both binning implementations proves the identity (pos + tr)/(scale*b) == (pos/scale - (b-1)/2)/b and the "
             "scale update for every b, scale and position, and that the two siblings agree; symbolic evaluation of bin_image proves it keeps "
             "b*(s//b) voxels per axis, reshapes to (s//b, b) pairs and sums exactly the within-block axes; a compute-tuple rule checks every "
             "dask.compute call site; an effect analysis proves binning writes only to the fresh result. Numerical equality with block sums is not decided.",
        technique="affine-form abstract interpretation over ast, sibling agreement, dask.compute tuple-use rule, effect analysis",
        ref="5 C15"),
    "C16": dict(
        text="irfftn-shape rule (s=img.shape on the low-pass path); the Butterworth weight grid recipe (arange bounds, shift) is evaluated symbolically for "
             "n=2k and n=2k+1 and must be FFT-ordered in both, with only the last axis truncated to n//2+1 for half spectra; the weight expression is "
             "compared in rational normal form with 1/(1+q2**order), each axis term must be (k/(d*cutoff))**2 squared before the sum, and the weight may "
             "depend on the image only through its shape (=> linear, unit DC gain, real and even => zero phase); the identity guard of the four low-pass "
             "functions is compared in normal form; numpy/backend siblings and delegations must agree slot by slot. Numerical agreement is not decided.",
        technique="parity-split symbolic evaluation and rational normal forms (abstract interpretation over ast), sibling-slot agreement, irfftn-shape rule",
        ref="5 C16"),
    "C17": dict(
        text="The homogeneity/bilinear-form domain evaluates fourier_shell_correlation and recognises the per-shell Cauchy-Schwarz quotient with one "
             "sum_labels reducer (range, value 1 on identical inputs, gain invariance), symmetry under swapping inputs; a layout rule requires spectra and "
             "label grid in the same FFT layout; loader-level rules: both half-maps multiplied by the same mask, half-maps from average_split "
             "(complementary masks, C09), seed/n_set forwarded unchanged, and a type-dispatch exhaustiveness rule proves every mask kind of the annotated "
             "union reaches the product. Numerical values and shell occupancy are not decided.",
        technique="homogeneity/bilinear normal forms by abstract interpretation, dispatch-exhaustiveness rule over annotated unions, same-source/slot rules",
        ref="5 C17"),
    "C18": dict(
        text="Narrow structural claim: a CFG must-pass-through rule proves the matrix handed to the SVD is centred on every path; def-use/slot rules prove "
             "the mean is the per-feature mean, transform subtracts it and projects on components_.T, outputs are truncated to n_components, fit and "
             "projection use the same masked flattened stack; classify builds the stack in molecule order with each molecule's own quaternion, adds "
             "exactly one label column to a copy of the molecules and goes through replace (effect analysis: no write to self); the masked difference "
             "applies the same wedge and transform to image and template. Equality with an exact SVD and cluster separation are numerical/statistical "
             "and not decided. Known finding D32: the classifier's PCA uses svd_solver='auto', which becomes the randomized (approximate) solver above 500 samples/features.",
        technique="CFG must-pass-through, def-use/slot rules on ast, effect analysis, linear-image provenance (homogeneity domain) for the difference map",
        ref="5 C18"),
    "C19": dict(
        text="An operator-table rule normalises the lambda of every arithmetic/comparison dunder of both pipeline classes to OP(self(args), other[(args)]) "
             "and requires OP to be the dunder's operator with operands in order; reflected dunders of non-commutative operators must evaluate "
             "other OP self; composition must nest self(other(...), scale) and return the inner pipeline's kind; the currying decorators must call "
             "fn(scale, *args) / fn(img, scale, *args); unit typing of all decorated providers/converters proves nm parameters reach pixel-space "
             "callees only as p/scale; the Gaussian provider's centre is proved equal to (n-1)/2 + shift/scale in affine normal form and its exponent "
             "must be a sum of squares; mask converters dispatch on the sign of the radius. Resampling accuracy is not decided.",
        technique="operator-table rule over lambda bodies (ast), unit typing and affine forms by abstract interpretation, structural slot rules",
        ref="5 C19"),
    "C20": dict(
        text="Structural clauses of chunk-independent picking: unit typing proves the LoG/DoG widths and the ZNCC exclusion distance reach the "
             "per-chunk worker in pixels and positions come back as (pos - depth) * scale; a halo-discipline rule on the map_overlap(trim=False) site "
             "requires that the worker is handed the very depth given to dask, keeps only picks with d <= pos < size - d (positions, orientations and "
             "features alike), adds the chunk start of the un-overlapped array and removes the depth exactly once; an affine-form proof shows the overlap "
             "depth >= 4*sigma_filter + sigma_maxima for LoG and DoG and half-template + ceil(min_distance) for template matching; chunks without maxima "
             "yield (0, 3) arrays; the template bank is rendered with the inverse of each searched rotation in quaternion order and the reported rotation "
             "is read from the same array by the arg-max index; the ZNCC offset equals minus the landscape origin plus the template centre for all sizes. "
             "Detection quality, thresholds and sub-pixel positions are not decided.",
        technique="halo-discipline and same-source rules over ast, unit typing and affine normal forms (with inequality prover) by abstract interpretation",
        ref="5 C20"),
}

NOT_APPLICABLE = {
    "C04": "every clause is a numerical accuracy bound (<=0.1 px / <=0.5 px) on a located correlation peak; nothing in the shape of "
           "the code bounds interpolation or spline-refinement error. Its structural preconditions (symmetric crops, zero displacement "
           "at the landscape midpoint, mesh encoder/decoder identity, clipping) are decided under C05 and C07 (DESIGN.md section 6).",
}

PENDING_REASON = "checker for this property is still being built in this session (see DESIGN.md section 9); not claimed until it exists"


def main():
    checks = []
    na = []
    for i in range(1, 21):
        pid = f"C{i:02d}"
        have = os.path.exists(os.path.join(HERE, "sa", "props", pid + ".py"))
        if pid in CLAIMED and have:
            c = CLAIMED[pid]
            checks.append({
                "property_id": pid,
                "quick_cmd": f"/venv/bin/python /verif/check.py {pid} --tier quick",
                "thorough_cmd": f"/venv/bin/python /verif/check.py {pid} --tier thorough",
                "evidence_file": f"/verif/evidence/{pid}.json",
                "replay_cmd_template": f"/venv/bin/python /verif/check.py {pid} --replay {{path}}",
                "engine": "sa",
                "level_claimed": {"category": "other", "text": c["text"], "design_ref": "DESIGN.md section " + c["ref"]},
                "level_note": c.get("note", COMMON_NOTE),
                "technique": c["technique"],
            })
        elif pid in NOT_APPLICABLE:
            na.append({"property_id": pid, "reason": NOT_APPLICABLE[pid]})
        else:
            na.append({"property_id": pid, "reason": PENDING_REASON})
    man = {
        "version": 1,
        "setup_cmd": "true",
        "hooks": {
            "guard": "ACRYO_VERIF",
            "enable": "none needed: the checks read /repo/acryo source with ast; there are no hooks or instrumentation in /repo",
            "baseline_off_cmd": BASELINE,
            "source_commits": [],
            "add_only": True,
        },
        "engines": [
            {"name": "sa", "path": "/verif/sa", "serves_properties": [c["property_id"] for c in checks],
             "kind_free_text": "repository-specific static analysis on Python ast: resolved source model and call graph (sa/repo.py), "
                               "statement CFG + reaching definitions + must-pass-through (sa/cfg.py), forward abstract evaluator with "
                               "pluggable domains (sa/absint.py, sa/domains/), structural rule packs (sa/rules/), per-property obligation "
                               "tables (sa/props/). Nothing under /repo is imported or executed."},
        ],
        "checks": checks,
        "not_applicable": na,
        "notes": "exit 0 holds / exit 1 VIOLATION / exit 2 ANALYSIS-ERROR (vanished anchor, undecided obligation, instance floor not met). "
                 "Known findings: /verif/known_findings.jsonl. Seeded breaking changes: /verif/seeded/.",
    }
    with open(os.path.join(HERE, "MANIFEST.json"), "w") as f:
        json.dump(man, f, indent=1)
    print(f"claimed {len(checks)}; not_applicable {len(na)}")


if __name__ == "__main__":
    main()
