#!/venv/bin/python
"""tools/runcorpus.py IN.json OUT.jsonl -- classify candidate mutants on the current tree."""
import sys, os, json
sys.path.insert(0, os.path.dirname(os.path.dirname(os.path.abspath(__file__))))
from concurrent.futures import ProcessPoolExecutor
from selftest.mutate import overlay_for, Stale
from check import decide_property as run_property

def one(e):
    try:
        ov = overlay_for('/repo', e['rel'], e['old'], e['new'], e.get('within'))
    except Stale as s:
        return dict(e, outcome='stale', detail=str(s))
    except Exception as s:
        return dict(e, outcome='stale', detail=repr(s))
    try:
        rep = run_property(e['prop'], 'quick', '/repo', overlay=ov)
    except Exception as x:
        return dict(e, outcome='crash', detail=repr(x))
    r, u = rep.new_refuted(), rep.undecided()
    if r:
        return dict(e, outcome='refuted', detail=f"{r[0].rule} {r[0].where}: {r[0].desc[:100]}", n=len(r))
    if u or rep.errors:
        return dict(e, outcome='flagged', detail=(f"{u[0].rule} {u[0].where}: {u[0].desc[:100]}" if u else str(rep.errors[0])[:160]))
    return dict(e, outcome='survived', detail='')

if __name__ == '__main__':
    es = json.load(open(sys.argv[1]))
    with ProcessPoolExecutor(16) as ex:
        res = list(ex.map(one, es))
    from collections import Counter
    print(Counter(r['outcome'] for r in res))
    with open(sys.argv[2], 'w') as f:
        for r in res:
            f.write(json.dumps(r) + '\n')
    for r in res:
        if r['outcome'] in ('stale', 'survived', 'crash'):
            print(r['outcome'], r['prop'], r['rel'], repr(r['old'][:60]), '->', repr(r['new'][:60]), r['detail'][:100])
