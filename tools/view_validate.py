#!/venv/bin/python
"""tools/view_validate.py -- write every equivalent view (sa/views.py) of the package to a scratch worktree and run the pinned suite there."""
import sys, os, shutil, subprocess, tempfile
sys.path.insert(0, os.path.dirname(os.path.dirname(os.path.abspath(__file__))))
from sa.views import view_overlays
from selftest.transforms import _sources
srcs = _sources('/repo')
import check
for name, ov in view_overlays(srcs, check.anchored_names()):
    changed = sum(1 for r in ov if ov[r] != srcs[r])
    d = tempfile.mkdtemp(prefix="view_")
    wt = d + "/wt"
    try:
        subprocess.check_call(["git", "-C", "/repo", "worktree", "add", "--detach", "-f", wt], stdout=subprocess.DEVNULL, stderr=subprocess.DEVNULL)
        for rel, src in ov.items():
            open(os.path.join(wt, rel), "w").write(src)
        r = subprocess.run("/venv/bin/python -m pytest -q -p no:cacheprovider --timeout=900 2>&1 | grep -E 'passed|failed|error' | tail -2", shell=True, cwd=wt,
                           env={**os.environ, "PYTHONPATH": wt}, capture_output=True, text=True)
        print(name, "files changed:", changed, "|", r.stdout.strip())
    finally:
        subprocess.call(["git", "-C", "/repo", "worktree", "remove", "--force", wt])
        shutil.rmtree(d, ignore_errors=True)
