#!/venv/bin/python
"""tools/seed_ingest.py [--round N --src DIR] PROP... -- confirm the seeded changes delivered in /tmp/seed/out/PROP/change_N (scratch worktree: demo exits 1 with the patch,
0 without, pinned suite passes) and keep the confirmed ones as /verif/seeded/PROP-N/{patch.diff, demo.py, meta.json}."""
import json, os, shutil, sys
sys.path.insert(0, os.path.dirname(os.path.abspath(__file__)))
import seed_eval
from concurrent.futures import ThreadPoolExecutor

VERIF = seed_eval.VERIF


def one(job):
    prop, n, src = job
    res = seed_eval.confirm(src)
    return prop, n, src, res


args = sys.argv[1:]
ROUND, SRC = 1, "/tmp/seed/out"
while args and args[0].startswith("--"):
    if args[0] == "--round":
        ROUND = int(args[1]); args = args[2:]
    elif args[0] == "--src":
        SRC = args[1]; args = args[2:]
OFFSET = 3 * (ROUND - 1)
jobs = []
for prop in args:
    base = f"{SRC}/{prop}"
    if not os.path.isdir(base):
        continue
    for name in sorted(os.listdir(base)):
        src = os.path.join(base, name)
        if name.startswith("change_") and all(os.path.isfile(os.path.join(src, f)) for f in ("patch.diff", "demo.py", "meta.json")):
            num = str(int(name.split('_')[1]) + OFFSET)
            dst = os.path.join(VERIF, "seeded", f"{prop}-{num}")
            if os.path.exists(os.path.join(dst, "meta.json")):
                continue
            jobs.append((prop, num, src))
with ThreadPoolExecutor(int(os.environ.get("INGEST_JOBS", "7"))) as ex:
    for prop, n, src, res in ex.map(one, jobs):
        print(prop, n, "confirmed" if res["confirmed"] else "REJECTED", {k: res.get(k) for k in ("demo_exit_original", "demo_exit_changed", "tests", "applies")})
        if not res["confirmed"]:
            continue
        dst = os.path.join(VERIF, "seeded", f"{prop}-{n}")
        os.makedirs(dst, exist_ok=True)
        shutil.copy(os.path.join(src, "patch.diff"), dst)
        shutil.copy(os.path.join(src, "demo.py"), dst)
        meta = json.load(open(os.path.join(src, "meta.json")))
        meta["round"] = ROUND
        meta["confirmation"] = {"by": "tools/seed_eval.py confirm (scratch worktree of /repo HEAD)", "demo_exit_original": res["demo_exit_original"],
                                "demo_exit_changed": res["demo_exit_changed"], "tests_changed_tree": res["tests"]}
        json.dump(meta, open(os.path.join(dst, "meta.json"), "w"), indent=1)
