#!/venv/bin/python
"""tools/tf_validate.py NAME  -- write the transformed package to a scratch copy and run the pinned suite there (validates that the
transformation preserves behaviour). Scratch copy lives under /tmp and is removed afterwards."""
import sys, os, shutil, subprocess, tempfile
sys.path.insert(0, os.path.dirname(os.path.dirname(os.path.abspath(__file__))))
from selftest.transforms import overlay
name = sys.argv[1]
d = tempfile.mkdtemp(prefix=f"tf_{name}_")
try:
    subprocess.check_call(["git", "-C", "/repo", "worktree", "add", "--detach", "-f", d + "/wt"], stdout=subprocess.DEVNULL, stderr=subprocess.DEVNULL)
    wt = d + "/wt"
    for rel, src in overlay('/repo', name).items():
        with open(os.path.join(wt, rel), "w") as f:
            f.write(src)
    r = subprocess.run("/venv/bin/python -m pytest -q -p no:cacheprovider --timeout=900 2>&1 | grep -E 'passed|failed|error' | tail -3", shell=True, cwd=wt,
                       env={**os.environ, "PYTHONPATH": wt})
finally:
    subprocess.call(["git", "-C", "/repo", "worktree", "remove", "--force", d + "/wt"])
    shutil.rmtree(d, ignore_errors=True)
