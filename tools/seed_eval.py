#!/venv/bin/python
"""tools/seed_eval.py confirm SRC_DIR        -- confirm a seeded change in a scratch worktree (demo exits 1 with the patch, 0 without; suite passes)
   tools/seed_eval.py check   SEED_DIR [PROP...] -- apply the patch to /repo, run the quick checks, undo it straight afterwards; prints who catches it
   tools/seed_eval.py all                    -- `check` for every directory in /verif/seeded, summary table (used for the DESIGN.md catch table)
"""
import json, os, shutil, subprocess, sys, tempfile

VERIF = os.path.dirname(os.path.dirname(os.path.abspath(__file__)))
PROPS = [f"C{i:02d}" for i in range(1, 21) if os.path.exists(os.path.join(VERIF, "sa", "props", f"C{i:02d}.py"))]


def sh(cmd, **kw):
    return subprocess.run(cmd, shell=True, capture_output=True, text=True, **kw)


def confirm(src):
    patch = os.path.join(src, "patch.diff")
    demo = os.path.join(src, "demo.py")
    d = tempfile.mkdtemp(prefix="confirm_")
    wt = os.path.join(d, "wt")
    res = {}
    try:
        sh(f"git -C /repo worktree add --detach -f {wt} HEAD")
        env = dict(os.environ, PYTHONPATH=wt)
        r0 = sh(f"/venv/bin/python {demo}", cwd=wt, env=env)
        res["demo_exit_original"] = r0.returncode
        a = sh(f"git -C {wt} apply {patch}")
        res["applies"] = a.returncode == 0
        if a.returncode == 0:
            r1 = sh(f"/venv/bin/python {demo}", cwd=wt, env=env)
            res["demo_exit_changed"] = r1.returncode
            res["demo_tail_changed"] = (r1.stdout + r1.stderr)[-600:]
            t = sh("/venv/bin/python -m pytest -q -p no:cacheprovider --timeout=900 tests 2>&1 | grep -E 'passed|failed|error' | tail -1", cwd=wt, env=env)
            res["tests"] = t.stdout.strip()
        else:
            res["apply_error"] = a.stderr[-300:]
    finally:
        sh(f"git -C /repo worktree remove --force {wt}")
        shutil.rmtree(d, ignore_errors=True)
    res["confirmed"] = bool(res.get("applies") and res.get("demo_exit_original") == 0 and res.get("demo_exit_changed") == 1 and
                            "failed" not in res.get("tests", "failed") and "error" not in res.get("tests", "error") and "passed" in res.get("tests", ""))
    return res


def check(seed_dir, props=None):
    """Run the quick checks on a scratch worktree of /repo with the patch applied (the worktree is removed afterwards; /repo itself is not touched)."""
    patch = os.path.join(seed_dir, "patch.diff")
    out = {}
    d = tempfile.mkdtemp(prefix="seedchk_")
    wt = os.path.join(d, "wt")
    try:
        sh(f"git -C /repo worktree add --detach -f {wt} HEAD")
        a = sh(f"git -C {wt} apply {patch}")
        if a.returncode != 0:
            return {"error": "patch does not apply: " + a.stderr[-200:]}
        from concurrent.futures import ThreadPoolExecutor

        def one(p):
            code = ("import sys, json; sys.path.insert(0, %r); from check import decide_property; rep = decide_property(%r, 'quick', %r); "
                    "r, u = rep.new_refuted(), rep.undecided(); "
                    "print(json.dumps({'exit': 1 if r else (2 if (u or rep.errors) else 0), 'first': (f'{r[0].rule} {r[0].where}: {r[0].desc[:120]} -- {r[0].detail[:200]}' if r else "
                    "(f'{u[0].rule} {u[0].where}: {u[0].desc[:120]} -- {u[0].detail[:120]}' if u else (str(rep.errors[0])[:200] if rep.errors else ''))), 'n_refuted': len(r)}))") % (VERIF, p, wt)
            r = subprocess.run(["/venv/bin/python", "-c", code], capture_output=True, text=True)
            try:
                return p, json.loads(r.stdout.strip().splitlines()[-1])
            except Exception:
                return p, {"exit": 2, "first": "checker crashed: " + r.stderr[-300:]}

        with ThreadPoolExecutor(8) as ex:
            for p, r in ex.map(one, props or PROPS):
                out[p] = r
    finally:
        sh(f"git -C /repo worktree remove --force {wt}")
        shutil.rmtree(d, ignore_errors=True)
    return out


def check_many(base):
    """`check` for every seed directory under ``base``, SEED_JOBS (default 4) seeds at a time (each seed runs its 19 checks in parallel itself)."""
    from concurrent.futures import ThreadPoolExecutor
    names = [n for n in sorted(os.listdir(base)) if os.path.isfile(os.path.join(base, n, "patch.diff"))]
    with ThreadPoolExecutor(int(os.environ.get("SEED_JOBS", "4"))) as ex:
        return dict(zip(names, ex.map(lambda n: check(os.path.join(base, n)), names)))


if __name__ == "__main__":
    cmd = sys.argv[1]
    if cmd == "confirm":
        print(json.dumps(confirm(sys.argv[2]), indent=1))
    elif cmd == "check":
        res = check(sys.argv[2], sys.argv[3:] or None)
        if "error" in res:
            print("ERROR", res["error"])
        for p, r in res.items():
            if isinstance(r, dict) and r.get("exit"):
                print(p, "exit", r["exit"], r["first"])
        print("silent:", [p for p, r in res.items() if isinstance(r, dict) and r.get("exit") == 0])
    elif cmd == "benign":
        rows = []
        base = os.path.join(VERIF, "seeded_benign")
        RES = check_many(base)
        for name in sorted(os.listdir(base)):
            sd = os.path.join(base, name)
            if not os.path.isfile(os.path.join(sd, "patch.diff")):
                continue
            meta = json.load(open(os.path.join(sd, "meta.json")))
            res = RES[name]
            if "error" in res:
                rows.append({"seed": name, "property": meta.get("property"), "error": res["error"]})
                print(name, "ERROR", res["error"])
                continue
            alarms = {p: {"exit": r["exit"], "first": r["first"]} for p, r in res.items() if r.get("exit")}
            rows.append({"seed": name, "property": meta.get("property"), "title": meta.get("title"), "refactor_kind": meta.get("refactor_kind"), "alarms": alarms})
            print(name, meta.get("refactor_kind"), "->", {p: r["exit"] for p, r in alarms.items()} or "silent")
        json.dump(rows, open(os.path.join(base, "RESULTS.json"), "w"), indent=1)
        n = len(rows)
        sil = sum(1 for r in rows if not r.get("alarms") and "error" not in r)
        print(f"{n} behaviour-preserving refactors: {sil} silent, {sum(1 for r in rows if any(a['exit'] == 1 for a in r.get('alarms', {}).values()))} false VIOLATION, "
              f"{sum(1 for r in rows if r.get('alarms') and not any(a['exit'] == 1 for a in r['alarms'].values()))} undecided only")
    elif cmd == "all":
        rows = []
        RES = check_many(os.path.join(VERIF, "seeded"))
        for name in sorted(os.listdir(os.path.join(VERIF, "seeded"))):
            sd = os.path.join(VERIF, "seeded", name)
            if not os.path.isfile(os.path.join(sd, "patch.diff")):
                continue
            meta = json.load(open(os.path.join(sd, "meta.json")))
            res = RES[name]
            if "error" in res:
                rows.append({"seed": name, "property": meta.get("property"), "title": meta.get("title"), "error": res["error"]})
                print(name, "ERROR", res["error"])
                continue
            caught = {p: {"exit": r["exit"], "first": r["first"]} for p, r in res.items() if r.get("exit")}
            rows.append({"seed": name, "property": meta.get("property"), "title": meta.get("title"), "function": meta.get("function"),
                         "caught_by": caught, "round": meta.get("round", 1)})
            print(name, meta.get("property"), "->", {p: r["exit"] for p, r in caught.items()} or "MISSED")
        json.dump(rows, open(os.path.join(VERIF, "seeded", "RESULTS.json"), "w"), indent=1)
        n = len(rows)
        v = sum(1 for r in rows if any(c["exit"] == 1 for c in r.get("caught_by", {}).values()))
        f2 = sum(1 for r in rows if r.get("caught_by") and not any(c["exit"] == 1 for c in r["caught_by"].values()))
        print(f"{n} seeded changes: {v} reported as VIOLATION (exit 1), {f2} only flagged (exit 2), {n - v - f2} missed")
