#!/venv/bin/python
"""tools/trymut.py PROP relpath 'old' 'new' [within]  -- analyse one in-memory mutant."""
import sys, os
sys.path.insert(0, os.path.dirname(os.path.dirname(os.path.abspath(__file__))))
from selftest.mutate import overlay_for
from check import decide_property as run_property
prop, rel, old, new = sys.argv[1:5]
within = sys.argv[5] if len(sys.argv) > 5 else None
ov = overlay_for('/repo', rel, old, new, within)
rep = run_property(prop, 'quick', '/repo', overlay=ov)
for o in rep.obligations:
    if o.status != 'discharged':
        print(o.status, o.rule, o.where, o.loc, '|', o.desc, '|', o.detail)
print('errors', rep.errors)
print('refuted', len(rep.new_refuted()), 'undecided', len(rep.undecided()))
