#!/venv/bin/python
"""tools/addmut.py kill|benign PROP relpath 'old' 'new' [within] -- run the variant and, if the outcome is the expected one, append it to selftest/corpus.jsonl."""
import sys, os, json
sys.path.insert(0, os.path.dirname(os.path.dirname(os.path.abspath(__file__))))
from selftest.mutate import overlay_for
from check import decide_property as run_property
kind, prop, rel, old, new = sys.argv[1:6]
within = sys.argv[6] if len(sys.argv) > 6 else None
ov = overlay_for('/repo', rel, old, new, within)
rep = run_property(prop, 'quick', '/repo', overlay=ov)
r, u = rep.new_refuted(), rep.undecided()
outcome = 'refuted' if r else ('flagged' if (u or rep.errors) else 'silent')
first = (f"{r[0].rule} {r[0].where}: {r[0].desc[:100]}" if r else (f"{u[0].rule} {u[0].where}: {u[0].desc[:100]}" if u else ''))
print(outcome, first)
want = {'kill': ('refuted', 'flagged'), 'benign': ('silent',)}[kind]
if outcome not in want:
    print('NOT ADDED: outcome is not the expected one')
    sys.exit(1)
path = os.path.join(os.path.dirname(os.path.dirname(os.path.abspath(__file__))), 'selftest', 'corpus.jsonl')
L = [json.loads(l) for l in open(path) if l.strip()]
if any(e['prop'] == prop and e['rel'] == rel and e['old'] == old and e['new'] == new for e in L):
    print('already in the corpus'); sys.exit(0)
n = sum(1 for e in L if e['prop'] == prop and e['kind'] == kind)
e = dict(id=f"{prop}-{kind[0]}{n + 1:02d}", prop=prop, kind=kind, rel=rel, old=old, new=new, within=within, expect=('refuted' if kind == 'kill' else 'silent'), first_report=first)
with open(path, 'a') as f:
    f.write(json.dumps(e) + '\n')
print('added', e['id'])
